"""Term layer of PyVC: z3 sorts, string literals, folds (spec automata / transducers as left folds),
character classes, and the *normaliser* that unfolds the defining equations of folds.

Strings are z3 ``Seq(Int)`` (code points).  No quantified axiom is ever sent to a solver: the three
defining equations of a fold

    F(q, eps)   = (q, eps)
    F(q, [c])   = step(q, c)
    F(q, a . b) = let (q1, o1) = F(q, a); (q2, o2) = F(q1, b) in (q2, o1 . o2)

are applied as left-to-right rewrite rules by ``normalize`` on every formula of every obligation
(sound: they are the definition), and everything that needs induction is a lemma proved by an explicit
induction schema (see contract.py).
"""
import z3

Int = z3.IntSort()
Bool = z3.BoolSort()
Str = z3.SeqSort(Int)

_K = z3


class CSeq(tuple):
    """Concrete sequence of ints (fast path of fold steps on concrete input)."""


_CONCRETE = [False]


def empty():
    if _CONCRETE[0]:
        return CSeq()
    return z3.Empty(Str)


def unit(c):
    if isinstance(c, int):
        if _CONCRETE[0]:
            return CSeq((c,))
        c = z3.IntVal(c)
    return z3.Unit(c)


def cseq_to_z3(t):
    if len(t) == 0:
        return z3.Empty(Str)
    us = [z3.Unit(z3.IntVal(x)) for x in t]
    return us[0] if len(us) == 1 else z3.Concat(*us)


def lit(s):
    """z3 term of a concrete Python str."""
    if _CONCRETE[0]:
        return CSeq(ord(ch) for ch in s)
    if len(s) == 0:
        return z3.Empty(Str)
    us = [z3.Unit(z3.IntVal(ord(ch))) for ch in s]
    return us[0] if len(us) == 1 else z3.Concat(*us)


def cat(*parts):
    if _CONCRETE[0] and all(isinstance(p, CSeq) for p in parts):
        out = []
        for p in parts:
            out.extend(p)
        return CSeq(out)
    parts = [cseq_to_z3(p) if isinstance(p, CSeq) else p for p in parts]
    parts = [p for p in parts if not is_empty(p)]
    if not parts:
        return empty()
    if len(parts) == 1:
        return parts[0]
    return z3.Concat(*parts)


def is_app(e, kind):
    return z3.is_app(e) and e.decl().kind() == kind


def is_empty(e):
    return is_app(e, z3.Z3_OP_SEQ_EMPTY)


def is_unit(e):
    return is_app(e, z3.Z3_OP_SEQ_UNIT)


def is_concat(e):
    return is_app(e, z3.Z3_OP_SEQ_CONCAT)


def flat_parts(e):
    """Flatten nested concats into a list of non-concat parts."""
    if is_concat(e):
        out = []
        for ch in e.children():
            out.extend(flat_parts(ch))
        return out
    if is_empty(e):
        return []
    return [e]


def as_pystr(e):
    """Concrete Python str of a literal seq term, or None."""
    e = z3.simplify(e)
    out = []
    for p in flat_parts(e):
        if is_unit(p) and z3.is_int_value(p.arg(0)):
            out.append(chr(p.arg(0).as_long()))
        else:
            return None
    return ''.join(out)


def ite(c, a, b):
    """if-then-else that stays concrete when the condition is a Python bool."""
    if isinstance(c, bool):
        return a if c else b
    if z3.is_true(c):
        return a
    if z3.is_false(c):
        return b
    if isinstance(a, tuple):
        return tuple(ite(c, x, y) for x, y in zip(a, b))
    if isinstance(a, int) and not isinstance(a, bool):
        a = z3.IntVal(a)
    if isinstance(b, int) and not isinstance(b, bool):
        b = z3.IntVal(b)
    if isinstance(a, bool):
        a = z3.BoolVal(a)
    if isinstance(b, bool):
        b = z3.BoolVal(b)
    return z3.If(c, a, b)


def zint(x):
    return z3.IntVal(x) if isinstance(x, int) else x


def eq(a, b):
    if isinstance(a, int) and isinstance(b, int):
        return a == b
    return zint(a) == zint(b)


def AND(*xs):
    if all(isinstance(x, bool) for x in xs):
        return all(xs)
    xs = [x for x in xs if not (x is True or (z3.is_expr(x) and z3.is_true(x)))]
    if any(x is False for x in xs):
        return z3.BoolVal(False)
    if not xs:
        return z3.BoolVal(True)
    return xs[0] if len(xs) == 1 else z3.And(*xs)


def OR(*xs):
    if all(isinstance(x, bool) for x in xs):
        return any(xs)
    xs = [x for x in xs if not (x is False or (z3.is_expr(x) and z3.is_false(x)))]
    if any(x is True for x in xs):
        return z3.BoolVal(True)
    if not xs:
        return z3.BoolVal(False)
    return xs[0] if len(xs) == 1 else z3.Or(*xs)


def NOT(x):
    if isinstance(x, bool):
        return not x
    return z3.Not(x)


def zbool(x):
    return z3.BoolVal(x) if isinstance(x, bool) else x


# ---------------------------------------------------------------------------------------------
# character classes: finite unions of closed intervals of code points


class CharClass:
    def __init__(self, intervals, name=''):
        # normalised, sorted, merged
        iv = sorted((int(a), int(b)) for a, b in intervals)
        out = []
        for a, b in iv:
            if out and a <= out[-1][1] + 1:
                out[-1] = (out[-1][0], max(out[-1][1], b))
            else:
                out.append((a, b))
        self.intervals = out
        self.name = name

    @staticmethod
    def of(chars, name=''):
        return CharClass([(ord(c), ord(c)) for c in chars], name)

    def contains(self, c):
        """Membership of an Int term (or Python int)."""
        if isinstance(c, int):
            return any(a <= c <= b for a, b in self.intervals)
        if z3.is_int_value(c):
            v = c.as_long()
            return z3.BoolVal(any(a <= v <= b for a, b in self.intervals))
        return OR(*[(c == a) if a == b else z3.And(c >= a, c <= b)
                    for a, b in self.intervals])

    def complement(self, lo=0, hi=0x10ffff):
        out = []
        cur = lo
        for a, b in self.intervals:
            if a > cur:
                out.append((cur, a - 1))
            cur = max(cur, b + 1)
        if cur <= hi:
            out.append((cur, hi))
        return CharClass(out, 'not(' + self.name + ')')

    def union(self, other):
        return CharClass(self.intervals + other.intervals, self.name + '|' + other.name)

    def boundary_chars(self):
        out = set()
        for a, b in self.intervals:
            for v in (a - 1, a, b, b + 1):
                if 0 <= v <= 0x10ffff and not (0xd800 <= v <= 0xdfff):
                    out.add(v)
        return out

    def size(self):
        return sum(b - a + 1 for a, b in self.intervals)

    def __eq__(self, o):
        return isinstance(o, CharClass) and self.intervals == o.intervals

    def __hash__(self):
        return hash(tuple(self.intervals))

    def __repr__(self):
        return 'CharClass(%s, %d intervals, %d chars)' % (self.name, len(self.intervals), self.size())


class _Negative(CharClass):
    """all negative integers (spec-side markers; never a Python code point)"""

    def __init__(self):
        CharClass.__init__(self, [(-(1 << 62), -1)], 'negative-marker')

    def contains(self, c):
        if isinstance(c, int):
            return c < 0
        if z3.is_int_value(c):
            return z3.BoolVal(c.as_long() < 0)
        return c < 0


NEGATIVE = _Negative()


# ---------------------------------------------------------------------------------------------
# folds

FOLDS = {}      # decl name -> (Fold, component index or 'o')


class Fold:
    """A left fold over a string with an integer-tuple state and a string output.

    step(q, c) -> (q', out)   with q a tuple of Int terms / Python ints, c an Int term / Python int,
    out a z3 Seq(Int) term.  ``step`` must be written with ``ite``/``eq``/``CharClass.contains`` so
    that the same text works for concrete and symbolic arguments.
    """

    def __init__(self, name, nstate, step, doc=''):
        assert name not in [f.name for f, _ in FOLDS.values()], name
        self.name, self.n, self.step, self.doc = name, nstate, step, doc
        self.qf = [z3.Function('%s_q%d' % (name, i), *([Int] * nstate + [Str, Int])) for i in range(nstate)]
        self.of = z3.Function('%s_o' % name, *([Int] * nstate + [Str, Str]))
        for i, f in enumerate(self.qf):
            FOLDS[f.name()] = (self, i)
        FOLDS[self.of.name()] = (self, 'o')

    def raw(self, q, w):
        q = [zint(x) for x in q]
        return tuple(f(*(q + [w])) for f in self.qf), self.of(*(q + [w]))

    def run(self, q, w):
        """(state', output) as raw applications; `normalize`/`prepare` apply the defining equations later, so
        that proof scripts can still rewrite the argument term as a whole."""
        return self.raw(q, w)

    def state(self, q, w):
        return self.run(q, w)[0]

    def out(self, q, w):
        return self.run(q, w)[1]

    def pyrun_codes(self, q, s):
        """Concrete execution; output as a list of ints (may contain non-character markers)."""
        st = tuple(q)
        out = []
        _CONCRETE[0] = True
        try:
            for ch in s:
                st, o = self.step(st, ord(ch) if isinstance(ch, str) else ch)
                st = tuple(int(x) for x in st)
                out.extend(o)
        finally:
            _CONCRETE[0] = False
        return st, out

    def pyrun(self, q, s):
        """Concrete execution on a Python str (used by replay / cross-check)."""
        st = tuple(q)
        out = []
        for ch in s:
            st2, o = self.step(st, ord(ch))
            st = tuple(_as_int(x) for x in st2)
            o = as_pystr(o) if z3.is_expr(o) else o
            out.append(o)
        return st, ''.join(out)


def _as_int(x):
    if isinstance(x, int):
        return x
    x = z3.simplify(x)
    assert z3.is_int_value(x), x
    return x.as_long()


def _run_norm(fold, q, w, cache):
    key = (fold.name, tuple(x.get_id() for x in q), w.get_id())
    if key in cache:
        return cache[key][1]
    cw = _concrete_word(w) if all(z3.is_int_value(x) for x in q) else None
    if cw is not None and len(cw) > 0:
        st = tuple(x.as_long() for x in q)
        outs = []
        _CONCRETE[0] = True
        try:
            for c in cw:
                st, o = fold.step(st, c)
                if not isinstance(o, CSeq):
                    o = _concrete_word(z3.simplify(o))
                    if o is None:
                        raise ValueError('fold %s: non-literal output on concrete input' % fold.name)
                st = tuple(x if isinstance(x, int) else z3.simplify(x).as_long() for x in st)
                outs.extend(o)
        finally:
            _CONCRETE[0] = False
        r = (tuple(z3.IntVal(x) for x in st), cseq_to_z3(outs))
    elif is_empty(w):
        r = (q, z3.Empty(Str))
    elif is_unit(w):
        q2, o = fold.step(q, w.arg(0))
        q2 = tuple(z3.simplify(zint(x)) for x in q2)
        r = (q2, z3.simplify(o))
    elif is_concat(w):
        st, outs = q, []
        parts = flat_parts(w)
        for p in parts:
            st, o = _run_norm(fold, st, p, cache)
            outs.append(o)
        r = (st, cat(*outs))
        if any(not (is_unit(p) or is_empty(p)) for p in parts):
            # keep the unsplit application alive: F(q, a.b) == split form (instance of the defining equation),
            # so that congruence with other known equalities on a.b still applies
            cache.setdefault('bridges', []).append((fold, q, w, r))
    elif is_app(w, z3.Z3_OP_ITE):
        c, a, b = w.children()
        ra, rb = _run_norm(fold, q, a, cache), _run_norm(fold, q, b, cache)
        r = (tuple(z3.If(c, x, y) for x, y in zip(ra[0], rb[0])), z3.If(c, ra[1], rb[1]))
    else:
        r = fold.raw(q, w)
    # keep the key terms alive: z3 re-uses AST ids of collected terms
    cache[key] = ((q, w), r)
    return r


def _concrete_word(w):
    """list of ints if w is a literal sequence, else None."""
    if is_unit(w):
        a = w.arg(0)
        return [a.as_long()] if z3.is_int_value(a) else None
    if is_empty(w):
        return []
    if is_concat(w):
        out = []
        for p in w.children():
            r = _concrete_word(p)
            if r is None:
                return None
            out.extend(r)
        return out
    return None


def normalize(e, cache=None):
    """Apply the fold equations everywhere in e (bottom-up)."""
    if cache is None:
        cache = {}
    memo = cache.setdefault('memo', {})
    runc = cache.setdefault('run', {})

    def go(t):
        tid = t.get_id()
        if tid in memo:
            return memo[tid][1]
        if z3.is_quantifier(t) or not z3.is_app(t) or t.num_args() == 0:
            memo[tid] = (t, t)
            return t
        kids = [go(k) for k in t.children()]
        d = t.decl()
        name = d.name()
        if d.kind() == z3.Z3_OP_UNINTERPRETED and name in FOLDS:
            fold, comp = FOLDS[name]
            q, w = tuple(kids[:-1]), kids[-1]
            w = _flatten_simplify(w)
            st, o = _run_norm(fold, q, w, runc)
            r = o if comp == 'o' else st[comp]
        elif (d.kind() == z3.Z3_OP_UNINTERPRETED and name.startswith('rep_') and len(kids) == 1 and
              z3.is_int_value(z3.simplify(kids[0]))):
            r = cseq_to_z3([int(name[4:], 16)] * max(z3.simplify(kids[0]).as_long(), 0))
        else:
            if any(k.get_id() != c.get_id() for k, c in zip(kids, t.children())):
                r = _rebuild(t, kids)
            else:
                r = t
        memo[tid] = (t, r)      # the key term is kept alive: z3 re-uses AST ids of collected terms
        return r

    return go(e)


def _flatten_simplify(w):
    if is_concat(w) or is_unit(w) or is_empty(w) or _is_const(w):
        return w
    # local simplification so that slices / conditionals over literals are seen as the literals they are
    return z3.simplify(w)


def _rebuild(t, kids):
    d = t.decl()
    k = d.kind()
    if k == z3.Z3_OP_AND:
        return z3.And(*kids)
    if k == z3.Z3_OP_OR:
        return z3.Or(*kids)
    if k == z3.Z3_OP_SEQ_CONCAT:
        return z3.Concat(*kids)
    if k == z3.Z3_OP_ADD:
        return z3.Sum(*kids) if len(kids) > 2 else kids[0] + kids[1]
    if k == z3.Z3_OP_MUL and len(kids) > 2:
        r = kids[0]
        for x in kids[1:]:
            r = r * x
        return r
    if k == z3.Z3_OP_DISTINCT:
        return z3.Distinct(*kids)
    try:
        return d(*kids)
    except Exception:
        return t.decl()(*kids)


def subst(e, pairs):
    return z3.substitute(e, *pairs) if pairs else e


def free_consts(e, acc=None, seen=None):
    if acc is None:
        acc = {}
    if seen is None:
        seen = set()
    if e.get_id() in seen:
        return acc
    seen.add(e.get_id())
    if z3.is_app(e):
        if e.num_args() == 0 and e.decl().kind() == z3.Z3_OP_UNINTERPRETED:
            acc[e.decl().name()] = e
        for k in e.children():
            free_consts(k, acc, seen)
    elif z3.is_quantifier(e):
        free_consts(e.body(), acc, seen)
    return acc


# ---------------------------------------------------------------------------------------------
# common derived folds


def make_cmap(name, h):
    """Character homomorphism: out = concat h(c); stateless (one dummy state component)."""
    def step(q, c):
        return q, h(c)
    return Fold(name, 1, step, 'character homomorphism')


def make_any(name, cls):
    """state 1 iff some character seen so far is in cls."""
    def step(q, c):
        return (ite(cls.contains(c), 1, q[0]),), empty()
    return Fold(name, 1, step, 'exists char in class')


_FRESH = [0]


def fresh(prefix, sort):
    _FRESH[0] += 1
    return z3.Const('%s!%d' % (prefix, _FRESH[0]), sort)


def reset_fresh(n=0):
    _FRESH[0] = n


# ---------------------------------------------------------------------------------------------
# obligation preprocessing: solve equations for constants, then apply the fold equations


def _is_const(e):
    return z3.is_app(e) and e.num_args() == 0 and e.decl().kind() == z3.Z3_OP_UNINTERPRETED


def _occurs(x, t):
    return x.decl().name() in free_consts(t)


def _conjuncts(e):
    if is_app(e, z3.Z3_OP_AND):
        out = []
        for k in e.children():
            out.extend(_conjuncts(k))
        return out
    return [e]


def prepare(assumptions, goal, rounds=60):
    """Equivalent obligation in which constants defined by an assumption `x == t` are eliminated and the
    defining equations of folds are applied.  Sound: substitution of equals + definitional unfolding."""
    ass = []
    for a in assumptions:
        ass.extend(_conjuncts(a))
    bridges = []
    seen_b = set()
    for _ in range(rounds):
        cache = {}
        ass = [z3.simplify(normalize(a, cache)) for a in ass]
        ass2 = []
        for a in ass:
            ass2.extend(_conjuncts(a))
        ass = [a for a in ass2 if not z3.is_true(a)]
        goal = z3.simplify(normalize(goal, cache))
        for fold, q, w, r in cache.get('run', {}).get('bridges', []):
            key = (fold.name, tuple(x.get_id() for x in q), w.get_id())
            if key in seen_b:
                continue
            seen_b.add(key)
            rq, ro = fold.raw(q, w)
            for x, y in zip(rq, r[0]):
                bridges.append(x == y)
            bridges.append(ro == r[1])
        ass = _unit_propagate(ass)
        pick = None
        for a in ass:
            if is_app(a, z3.Z3_OP_EQ):
                l, r = a.children()
                if _is_const(l) and not _occurs(l, r) and (is_seq_like(r) or not _is_const(r)):
                    pick = (a, l, r)
                elif _is_const(r) and not _occurs(r, l):
                    pick = (a, r, l)
                if pick:
                    break
        if pick is None:
            break
        a0, x, t = pick
        ass = [z3.substitute(a, (x, t)) for a in ass if a is not a0]
        bridges = [z3.substitute(b, (x, t)) for b in bridges]
        goal = z3.substitute(goal, (x, t))
    else:
        # rounds exhausted: make sure the last substitution is followed by a rewriting pass
        cache = {}
        ass = [z3.simplify(normalize(a, cache)) for a in ass]
        goal = z3.simplify(normalize(goal, cache))
    ass = ass + bridges
    # definitional instances of rep(c, n) for the terms that occur (one level; sound: instances of the definition)
    seen = {}
    for e in ass + [goal]:
        _collect_rep(e, seen, set())
    for (ch, nid), n in list(seen.items()):
        ass.append(rep_unfold(ch, n))
    done_rd = set()
    for _round in range(2):        # two levels: an instance may mention the definition at a neighbouring argument
        rd = {}
        for e in ass + [goal]:
            _collect_recdefs(e, rd, set())
        for tid, t in rd.items():
            key = (t.decl().name(), tuple(z3.simplify(c).get_id() for c in t.children()))
            if key in done_rd:
                continue
            done_rd.add(key)
            ass.append(RECDEFS[t.decl().name()].unfold(*t.children()))
    # empty-word instances of the fold equations for the applications that stayed opaque
    apps = {}
    for e in ass + [goal]:
        _collect_fold_apps(e, apps, set())
    for t in apps.values():
        fold, comp = FOLDS[t.decl().name()]
        kids = t.children()
        w = kids[-1]
        if comp == 'o':
            ass.append(z3.Implies(w == z3.Empty(Str), t == z3.Empty(Str)))
        else:
            ass.append(z3.Implies(w == z3.Empty(Str), t == kids[comp]))
        # a fold over rep(c, n): one step of the recursive definition of rep, pushed through the fold
        if (z3.is_app(w) and w.decl().kind() == z3.Z3_OP_UNINTERPRETED and w.decl().name().startswith('rep_')
                and w.num_args() == 1):
            try:
                ch = int(w.decl().name()[4:], 16)
            except ValueError:
                continue
            n = w.arg(0)
            q = tuple(kids[:-1])
            st, o = _run_norm(fold, q, z3.Concat(rep(ch, n - 1), z3.Unit(z3.IntVal(ch))), {})
            val = o if comp == 'o' else st[comp]
            ass.append(z3.Implies(n > 0, t == val))
    return ass, goal


def _collect_fold_apps(e, acc, visited):
    if e.get_id() in visited:
        return
    visited.add(e.get_id())
    if z3.is_app(e):
        if e.decl().kind() == z3.Z3_OP_UNINTERPRETED and e.decl().name() in FOLDS and e.num_args() > 0:
            w = e.children()[-1]
            if not (is_empty(w) or is_unit(w) or is_concat(w)):
                acc[e.get_id()] = e
        for k in e.children():
            _collect_fold_apps(k, acc, visited)


RECDEFS = {}


class RecDef:
    """f(args..., n) defined by recursion on the natural number n:
         f(args, n) = base(args)                      if n <= 0
                    = step(args, n - 1, f(args, n-1)) otherwise
    Only instances of this equation (for the argument tuples that occur in an obligation) are given to the
    solver (one level per occurrence).  Total and terminating by construction, hence a conservative extension."""

    def __init__(self, name, arg_sorts, result_sort, base, step):
        self.name = name
        self.f = z3.Function(name, *(list(arg_sorts) + [Int, result_sort]))
        self.base, self.step = base, step
        RECDEFS[name] = self

    def __call__(self, *args):
        args = [zint(a) for a in args]
        return self.f(*args)

    def unfold(self, *args):
        *xs, n = args
        return self.f(*args) == z3.If(n <= 0, self.base(*xs), self.step(*xs, n - 1, self.f(*(list(xs) + [n - 1]))))


def _collect_recdefs(e, acc, visited):
    if e.get_id() in visited:
        return
    visited.add(e.get_id())
    if z3.is_app(e):
        nm = e.decl().name()
        if nm in RECDEFS and e.decl().kind() == z3.Z3_OP_UNINTERPRETED and e.num_args() > 0:
            acc[e.get_id()] = e
        for k in e.children():
            _collect_recdefs(k, acc, visited)


def _collect_rep(e, acc, visited):
    if e.get_id() in visited:
        return
    visited.add(e.get_id())
    if z3.is_app(e):
        nm = e.decl().name()
        if nm.startswith('rep_') and e.num_args() == 1 and e.decl().kind() == z3.Z3_OP_UNINTERPRETED:
            try:
                ch = int(nm[4:], 16)
                acc[(ch, e.arg(0).get_id())] = e.arg(0)
            except ValueError:
                pass
        for k in e.children():
            _collect_rep(k, acc, visited)


def is_seq_like(e):
    return True


def _neg_id(e):
    if is_app(e, z3.Z3_OP_NOT):
        return e.arg(0).get_id()
    return z3.Not(e).get_id()


def _unit_propagate(ass):
    """Unit resolution on top-level clauses (Or / Implies): sound, and it turns guarded equalities into
    top-level ones so that they can be used for substitution."""
    for _ in range(6):
        facts = {a.get_id() for a in ass}
        new = []
        changed = False
        for a in ass:
            lits = None
            if is_app(a, z3.Z3_OP_OR):
                lits = list(a.children())
            elif is_app(a, z3.Z3_OP_IMPLIES):
                l, r = a.children()
                lits = [z3.simplify(z3.Not(c)) for c in _conjuncts(l)] + [r]
            if lits is None:
                new.append(a)
                continue
            rest = [x for x in lits if _neg_id(x) not in facts]
            if any(x.get_id() in facts for x in lits):
                new.append(a)
                continue
            if len(rest) == 1 and len(lits) > 1:
                changed = True
                new.extend(_conjuncts(rest[0]))
            else:
                new.append(a)
        ass = new
        if not changed:
            break
    return ass


# ---------------------------------------------------------------------------------------------
# rep(c, n): n copies of character c, defined by recursion on n (n <= 0 gives the empty string).
# Only *instances* of the defining equation are ever given to a solver (RecDef.unfold).

_REP = {}


def rep(ch, n):
    """ch: Python int (code point); n: Python int or Int term."""
    if isinstance(n, int):
        if _CONCRETE[0]:
            return CSeq([ch] * max(n, 0))
        return lit(chr(ch) * max(n, 0))
    if z3.is_int_value(n):
        return lit(chr(ch) * max(n.as_long(), 0))
    if ch not in _REP:
        _REP[ch] = z3.Function('rep_%x' % ch, Int, Str)
    return _REP[ch](n)


def rep_unfold(ch, n):
    """Instance of the definition:  rep(n) == (n <= 0 ? eps : rep(n-1) . [ch])  (also as [ch] . rep(n-1),
    and its length) -- true of the recursively defined function, so sound to assume for any n."""
    r = rep(ch, n)
    prev = rep(ch, n - 1)
    return z3.And(
        z3.If(n <= 0, r == z3.Empty(Str), r == z3.Concat(prev, z3.Unit(z3.IntVal(ch)))),
        z3.Length(r) == z3.If(n <= 0, z3.IntVal(0), n))
