"""./check <property> --tier quick|thorough  [--replay file]

Decides one property by (1) generating the verification conditions of every contract that carries it from
the *current* /repo sources, (2) discharging them (z3 5.1 API; /usr/bin/z3 4.8 and cvc5 as second opinions),
(3) vacuity guards (covers, canaries), (4) the native cross-check of the encoding and of the library
contracts against CPython, (5) native replay of counter-models, and writes evidence/<id>.json.

exit 0: every obligation discharged (or only known findings);  exit 1: VIOLATION lines printed;
exit 3: the check itself is broken (encoding mismatch, vacuous contract, crash).
"""
import argparse
import importlib
import json
import os
import sys
import time
import traceback

import z3

from . import terms as T
from . import solve
from .contract import verify_contract, Lemma, Args
from .interp import OutOfSubset, REPO, clear_source_cache
from . import native as N

VERIF = os.path.dirname(os.path.dirname(os.path.abspath(__file__)))

# property -> contract modules that carry it
PROPERTY_MODULES = {}


def load_property_table():
    from contracts import TABLE
    return TABLE


def log(*a):
    print(*a, flush=True)


class Run:
    def __init__(self, pid, tier, seed):
        self.pid, self.tier, self.seed = pid, tier, seed
        self.t0 = time.time()
        self.violations = []
        self.known = []
        self.undecided = []
        self.errors = []


def obligation_smt(ob):
    ass, goal = T.prepare(ob.assumptions, ob.goal)
    return ass, goal


def main(argv=None):
    ap = argparse.ArgumentParser()
    ap.add_argument('property')
    ap.add_argument('--tier', default=os.environ.get('VERIF_TIER', 'quick'))
    ap.add_argument('--replay', default=None)
    ap.add_argument('--timeout', type=float, default=None)
    ap.add_argument('--no-evidence', action='store_true')
    ap.add_argument('--write-lock', action='store_true')
    ap.add_argument('--verbose', '-v', action='store_true')
    args = ap.parse_args(argv)
    seed = int(os.environ.get('VERIF_SEED', '0') or 0)
    pid = args.property
    try:
        if args.replay:
            return N.replay_file(args.replay)
        return run_property(pid, args.tier, seed, args)
    except Exception:       # noqa
        traceback.print_exc()
        log('CHECK-ERROR property=%s crash' % pid)
        return 3


def run_property(pid, tier, seed, args):
    t0 = time.time()
    table = load_property_table()
    if pid not in table:
        log('CHECK-ERROR property=%s has no registered contracts' % pid)
        return 3
    spec = table[pid]
    timeout = args.timeout or (30 if tier == 'quick' else 60)
    mods = [importlib.import_module(m) for m in spec['modules']]
    contracts, lemmas = [], []
    seen_types = set()
    for m in mods:
        for c in m.registry():
            if type(c).__name__ in seen_types:
                continue
            seen_types.add(type(c).__name__)
            contracts.append(c)
        lemmas += getattr(m, 'LEMMAS', [])
    registry = {}
    for c in contracts:
        if c.deductive:
            registry[c.fn] = c
    mine = [c for c in contracts if pid in c.properties]
    for c in contracts:
        c.active_property = pid
    from .contract import reset_generated_lemmas, _LEMMAS_DONE, Lemma as _L
    reset_generated_lemmas()
    used_lemmas = []          # lemmas are pulled in by the proofs that use them (Proof.use -> Proof.need)

    reports = []
    obligations = []
    lemma_obls = []
    for lem in used_lemmas:
        try:
            obs = lem.obligations()
        except OutOfSubset as e:
            obs = []
            reports.append({'target': 'lemma:' + lem.name, 'error': 'out-of-subset: %s' % e})
        for ob in obs:
            ob.meta['lemma'] = lem.name
        lemma_obls += obs
    obligations += lemma_obls
    undecided_fns = []
    for c in mine:
        t1 = time.time()
        if not c.deductive:
            reports.append({'contract': c, 'rep': None, 'error': None, 'gen_s': 0.0, 'bounded_only': True})
            continue
        if getattr(c, 'syntactic', False):
            # obligations decided on the AST itself (hold for every execution); recorded like any other obligation
            from .contract import VerifyReport
            from .interp import Obligation, fn_source
            import hashlib, ast as _ast
            rep = VerifyReport(c.target)
            fnode, clsname, qual, path = fn_source(c.fn)
            seg = _ast.get_source_segment(open(path).read(), fnode) or ''
            rep.source = {'file': os.path.relpath(path, REPO), 'qualname': qual, 'line': fnode.lineno,
                          'sha256': hashlib.sha256(seg.encode()).hexdigest(), 'lines': seg.count('\n') + 1}
            for nm, ok in c.syntactic_obligations().items():
                ob = Obligation('%s.syntactic.%s' % (qual, nm), [], z3.BoolVal(bool(ok)), 'post',
                                {'contract': type(c).__name__, 'target': c.target})
                rep.obligations.append(ob)
            obligations += rep.obligations
            reports.append({'contract': c, 'rep': rep, 'error': None, 'gen_s': time.time() - t1})
            continue
        try:
            rep = verify_contract(c, registry)
        except OutOfSubset as e:
            rep = None
            err = 'out-of-subset: %s' % e
        except Exception as e:      # noqa
            # a hook of the contract does not fit the code any more (a changed call signature, a renamed field ...).
            # On unchanged source that is a defect of the check itself; otherwise the function is undecided.
            from .interp import fn_source as _fs
            import ast as _ast2, hashlib as _hl
            try:
                fnode, _c, _q, path = _fs(c.fn)
                sha_now = _hl.sha256((_ast2.get_source_segment(open(path).read(), fnode) or '').encode()).hexdigest()
            except Exception:       # noqa
                sha_now = None
            was = (N.load_lock_full(pid) or {}).get('top_sha', {}).get(c.target + '#' + type(c).__name__)
            if was is not None and was == sha_now:
                raise
            rep = None
            err = 'contract-mismatch: %s: %s' % (type(e).__name__, e)
        if rep is None or rep.error:
            err = rep.error if rep is not None else err
            if err.startswith('vacuous'):
                log('CHECK-ERROR property=%s contract=%s %s' % (pid, c.target, err))
                return 3
            undecided_fns.append((c, err))
            log('UNDECIDED property=%s function=%s reason=%s' % (pid, c.target, err))
            reports.append({'contract': c, 'rep': rep, 'error': err, 'gen_s': time.time() - t1})
            continue
        for ob in rep.obligations:
            ob.meta['contract'] = type(c).__name__
            ob.meta['target'] = c.target
        obligations += rep.obligations
        reports.append({'contract': c, 'rep': rep, 'error': None, 'gen_s': time.time() - t1})

    if not obligations and spec.get('level') != 'exploration' and not undecided_fns:
        # (functions that left the subset are reported as UNDECIDED above; the bounded contracts below still run)
        log('CHECK-ERROR property=%s zero obligations generated' % pid)
        return 3

    # ---- vacuity guard: on unchanged source the explored paths must be the ones recorded in the lock -------------
    lockdata = N.load_lock_full(pid)
    shape = {}
    top_sha = {}
    for rp in reports:
        rep = rp.get('rep')
        if rep is None or rep.source is None or rp.get('error'):
            continue            # undecided functions are reported as such, not compared
        kinds = {}
        for pth in rep.paths:
            key = pth['case'] + '/' + pth['kind']
            kinds[key] = kinds.get(key, 0) + 1
        top_sha[rep.target + '#' + type(rp['contract']).__name__] = rep.source['sha256']
        shape[rep.target + '#' + type(rp['contract']).__name__] = {'sha256': rep.source.get('closure_sha256', rep.source['sha256']), 'paths': kinds,
                                                                   'obligations': len(rep.obligations)}
    if lockdata and not args.write_lock:
        for tgt, now in shape.items():
            was = lockdata.get('shape', {}).get(tgt)
            if was and was['sha256'] == now['sha256'] and any(now['paths'].get(k) != v for k, v in was['paths'].items()):
                log('CHECK-ERROR property=%s %s: source unchanged but explored paths differ from the lock (%s vs %s): '
                    'the check itself regressed' % (pid, tgt, now['paths'], was['paths']))
                return 3

    # ---- discharge -----------------------------------------------------------------------------
    tasks = []
    solve._PREPARE.clear()
    for i, ob in enumerate(obligations):
        # preprocessing (equation solving, fold rewriting) is done inside the forked worker of the obligation
        solve._PREPARE[i] = (lambda ob=ob: obligation_smt(ob) + (True,))
        tasks.append(solve.Task(i, None))
    t_solve = time.time()
    results = solve.discharge_all(tasks, timeout_s=timeout, second=False)
    # an obligation that got no answer (solver timeout, a worker that died) is tried again on a quiet machine with
    # twice the budget before anything is concluded from it: verdicts must not depend on the load
    again = [t for t in tasks if results[t.key]['status'] in ('unknown', 'error')]
    if again:
        log('retrying %d obligations that got no answer (%s)' % (len(again), sorted({results[t.key]['status'] for t in again})))
        for t in again:
            t.smt2 = t.smt2 if t.smt2 else None
        res2 = solve.discharge_all(again, timeout_s=timeout * 2, jobs=8)       # other back ends are asked here
        for t in again:
            first = results[t.key]
            results[t.key] = dict(res2[t.key], retried={'status': first['status'], 'reason': first.get('reason')})
    broken = [obligations[t.key].name for t in tasks if results[t.key]['status'] == 'error']
    if broken:
        log('CHECK-ERROR property=%s solver workers failed twice on: %s' % (pid, ', '.join(broken[:5])))
        return 3
    solve_wall = time.time() - t_solve

    # ---- canaries: assumptions /\ goal must be satisfiable for every final (post) obligation ----------
    canary_tasks = []
    for rp in reports:
        rep = rp.get('rep')
        if rep is None:
            continue
        for nm, ass, goal in rep.canaries:
            solve._PREPARE[nm] = (lambda ass=ass, goal=goal: T.prepare(ass, goal) + (False,))
            canary_tasks.append(solve.Task(nm, None, want_model=False))
    canary_res = solve.discharge_all(canary_tasks, timeout_s=10, second=False)
    # a clause whose assumptions contradict it is vacuous only if it was nevertheless "proved"; a clause that is
    # plainly false fails its obligation and is reported as a violation below
    failed_names = [obligations[i].name for i in range(len(obligations)) if results[i]['status'] != 'unsat']
    vacuous = [k for k, r in canary_res.items() if r['status'] == 'unsat' and
               not any(fn == k or fn.startswith(k + '.') for fn in failed_names)]

    # thorough: second back end on every obligation
    agree = {}
    if tier == 'thorough':
        for i, ob in enumerate(obligations):
            if results[i]['status'] == 'unsat':
                r2 = solve.second_opinions(tasks[i].smt2, 30)
                agree[i] = [{'backend': x['backend'], 'status': x['status'], 'time': round(x['time'], 3)} for x in r2]

    # ---- thorough tier: spec-vs-tool validation and end-to-end replays with the real tools --------------------
    spec_validation, end_to_end = [], []
    if tier == 'thorough':
        for which in spec.get('validate', []):
            try:
                if which == 'sh':
                    from specs import validate_sh
                    c_, b_ = validate_sh.main(maxlen=5, limit=60000, seed=seed)
                else:
                    from specs import validate_make
                    c_, b_ = validate_make.main(limit=3000, seed=seed)
            except Exception as e:      # noqa
                log('CHECK-ERROR property=%s spec validation %s crashed: %r' % (pid, which, e))
                return 3
            spec_validation.append({'spec': which, 'texts_read_literally_by_spec': c_, 'disagreements_with_tool': b_})
            if b_:
                log('CHECK-ERROR property=%s specs/%s.py disagrees with the real tool on %d texts (a bug of the spec)' % (pid, which, b_))
                return 3
        from . import e2e
        end_to_end = e2e.run_for(pid)

    # ---- native: cross-check + executable contracts ------------------------------------------------
    nat = N.native_checks(pid, mine, registry, reports, tier, seed)

    # ---- verdicts ---------------------------------------------------------------------------------
    known = N.load_known_findings(pid)
    failed = []
    for i, ob in enumerate(obligations):
        r = results[i]
        if r['status'] != 'unsat':
            failed.append((i, ob, r))
    lines = []
    violations = 0
    known_hits = []
    undecided = []
    os.makedirs(os.path.join(VERIF, 'replays', pid), exist_ok=True)
    lock = N.load_lock(pid)
    # group failed obligations by contract/lemma so that one defect is reported once per obligation
    for i, ob, r in failed:
        # a known finding explains a failure only if the obligation is discharged once the finding's witnesses
        # are excluded from the quantified domain
        kf = None
        for k in N.candidates_known(known, ob):
            extra = N.restriction(k, ob)
            if extra is None:
                continue
            ass, goal = T.prepare(list(ob.assumptions) + extra, ob.goal)
            rr = solve.discharge_all([solve.Task('r', solve.to_smt2(ass, goal))], timeout_s=timeout)['r']
            if rr['status'] == 'unsat':
                kf = k
                break
        if kf is not None:
            known_hits.append((kf, ob, None))
            results[i] = dict(r, status='known-finding:' + kf['id'])
            continue
        witness = N.find_witness(pid, ob, r, mine, registry, lemmas, tier, seed)
        rp = N.write_replay(pid, ob, r, witness, tasks[i].smt2)
        if witness is not None:
            lines.append('VIOLATION property=%s replay=%s obligation=%s' % (pid, rp, ob.name))
            violations += 1
        elif r['status'] == 'sat' or ob.name in lock or not lock:
            lines.append('VIOLATION property=%s replay=%s obligation=%s no-failing-input-found' % (pid, rp, ob.name))
            violations += 1
        else:
            undecided.append(ob.name)
            log('UNDECIDED property=%s obligation=%s solver=%s' % (pid, ob.name, r.get('reason', r['status'])))
    # native failures that no obligation explains (runtime contract violated on a real input)
    harness = [nf for nf in nat['failures'] if nf.get('clause') == 'harness-error']
    if harness:
        for nf in harness[:5]:
            log('HARNESS-ERROR %s' % json.dumps(nf, default=str)[:400])
        log('CHECK-ERROR property=%s native harness raised on %d inputs' % (pid, len(harness)))
        return 3
    seen_nat = set()
    for nf in nat['failures']:
        kf = N.match_known_native(known, nf)
        if kf is not None:
            known_hits.append((kf, None, nf))
            continue
        keyn = (nf.get('contract'), nf.get('case'), nf.get('clause'))
        if keyn in seen_nat:
            continue
        seen_nat.add(keyn)
        rp = N.write_replay(pid, None, None, nf, None)
        lines.append('VIOLATION property=%s replay=%s native-contract=%s' % (pid, rp, nf['contract']))
        violations += 1
    for c, err in undecided_fns:
        pass
    seen_k = set()
    for kf, ob, w in known_hits:
        if kf['id'] in seen_k:
            continue
        seen_k.add(kf['id'])
        log('KNOWN-FINDING: property=%s %s' % (pid, kf['what']))
    if nat['encoding_mismatches']:
        for mm in nat['encoding_mismatches'][:5]:
            log('ENCODING-MISMATCH %s' % json.dumps(mm, default=str))
        log('CHECK-ERROR property=%s encoding cross-check failed (%d mismatches)' % (pid, len(nat['encoding_mismatches'])))
        return 3
    if vacuous:
        log('CHECK-ERROR property=%s vacuous obligations (assumptions contradict the goal): %s' % (pid, vacuous[:5]))
        return 3
    for ln in lines:
        log(ln)

    # ---- evidence -----------------------------------------------------------------------------------
    n_known = sum(1 for i in range(len(obligations)) if str(results[i]['status']).startswith('known-finding'))
    # an obligation that fails only on the witnesses of a recorded finding is counted in its restricted form
    # (quantified domain minus the finding's witnesses), which *was* discharged above; see known_findings.json
    discharged = sum(1 for i in range(len(obligations)) if results[i]['status'] == 'unsat') + n_known
    per_ob = []
    for i, ob in enumerate(obligations):
        r = results[i]
        e = {'name': ob.name, 'kind': ob.kind,
             'status': 'discharged' if r['status'] == 'unsat' else
                       ('discharged-restricted:' + r['status'].split(':', 1)[1] if str(r['status']).startswith('known-finding') else r['status']),
             'backend': r['backend'], 's': round(r['time'], 3)}
        if i in agree:
            e['second'] = agree[i]
        per_ob.append(e)
    fns = []
    all_notes = set()
    dropped = []
    for rp in reports:
        if 'contract' not in rp:
            continue
        c = rp['contract']
        rep = rp['rep']
        ent = {'contract': type(c).__name__, 'target': c.target, 'cases': c.active_cases(),
               'generation_s': round(rp['gen_s'], 3)}
        if rep is not None and rep.source:
            ent.update(rep.source)
            ent['paths'] = [{'name': p['name'], 'kind': p['kind']} for p in rep.paths]
            ent['obligations'] = len(rep.obligations)
            all_notes |= rep.notes
        if rp['error']:
            ent['error'] = rp['error']
        if rp.get('bounded_only'):
            ent['bounded_only'] = 'no deductive obligations: ' + c.reason
        fns.append(ent)
    sample_idx = [i for i, ob in enumerate(obligations) if ob.kind in ('post', 'lemma')][:3]
    samples = []
    for i in sample_idx:
        samples.append({'obligation': obligations[i].name, 'smt2': (tasks[i].smt2 or '')[:4000]})
    level = spec.get('level', 'proof')
    if undecided_fns or undecided:
        level = 'other'
    ev = {
        'property_id': pid, 'tier': tier, 'seed': seed, 'level': level,
        'coverage': {
            'obligations': len(obligations), 'discharged': discharged,
            'discharged_only_after_excluding_known_finding_witnesses': n_known,
            'checker_cmd': './check %s --tier %s' % (pid, tier),
            'trusted_base': spec.get('trusted_base', []) + sorted('library model: ' + n for n in all_notes),
            'explanation': spec.get('explanation', ''),
            'functions_under_contract': fns,
            'lemmas': [{'name': n, 'induction': (_L.REG[n].induct[0] if _L.REG[n].induct else None)}
                       for n in sorted(_LEMMAS_DONE) if n in _L.REG],
            'per_obligation': per_ob,
            'solver_wall_s': round(solve_wall, 2),
            'solver_cpu_s': round(sum(r['time'] for r in results.values()), 2),
            'canaries': {'checked': len(canary_tasks), 'vacuous': vacuous},
            'cross_check': nat['cross_check'],
            'spec_validation_against_real_tools': spec_validation,
            'end_to_end_replays_with_real_tools': end_to_end,
            'bounded': nat['bounded'],
            'undecided_functions': [{'target': c.target, 'reason': err} for c, err in undecided_fns],
            'undecided_obligations': undecided,
            'known_findings_reported': sorted(seen_k),
            'not_covered': spec.get('not_covered', []),
            'samples': samples + nat.get('samples', []),
            'evaluations': nat['evaluations'], 'distinct_nontrivial': nat['distinct_nontrivial'],
            'rule': nat['rule'],
        },
        'assumptions': spec.get('assumptions', []) + sorted(all_notes),
        'wall_s': round(time.time() - t0, 2),
        'violations': violations,
    }
    if args.write_lock:
        N.write_lock(pid, {'shape': shape, 'top_sha': {k: top_sha[k] for k in top_sha},
                           'names': sorted(ob.name for i, ob in enumerate(obligations) if results[i]['status'] == 'unsat' or
                                           str(results[i]['status']).startswith('known-finding'))})
    if not args.no_evidence:
        os.makedirs(os.path.join(VERIF, 'evidence'), exist_ok=True)
        with open(os.path.join(VERIF, 'evidence', '%s.json' % pid), 'w') as f:
            json.dump(ev, f, indent=1, default=str)
    log('%s: %d obligations, %d discharged, %d violations, %d known findings, %d undecided; native evaluations %d; %.1fs'
        % (pid, len(obligations), discharged, violations, len(seen_k), len(undecided) + len(undecided_fns),
           nat['evaluations'], time.time() - t0))
    if args.verbose:
        for e in per_ob:
            if e['status'] != 'discharged':
                log('  ', e)
    return 1 if violations else 0


if __name__ == '__main__':
    sys.exit(main())
