"""Value domain of the PyVC interpreter.

Concrete Python values are kept as they are (ints, strs, None, enum members, real functions, classes,
compiled regexes, real instances created at import time).  Symbolic values are ``Sym`` (immutable:
int / bool / str / opaque sorts / symbolic-length sequences used as values) and the mutable holders
``PList`` (Python list), ``PDict`` and ``Obj`` (instance of a repository class built by interpreting its
``__init__``).
"""
import z3
from . import terms as T


class Ty:
    pass


class Sym:
    """Symbolic immutable value. ty in {'int','bool','str'} or a tuple:
    ('seq', elt_ty)      immutable sequence with symbolic length (e.g. a tuple attribute, a generator result)
    ('opaque', sort)     value of an uninterpreted z3 sort (abstract component, matcher, version ...)
    ('enum', cls)        member of an Enum class, encoded as its index in list(cls)
    ('opt', ty)          Optional: encoded by a pair (isnone: Bool, val) -- kept as OptSym instead
    """
    __slots__ = ('e', 'ty')

    def __init__(self, e, ty):
        self.e = e
        self.ty = ty

    def __repr__(self):
        return 'Sym<%s:%s>' % (self.ty if isinstance(self.ty, str) else self.ty[0], self.e)


class PList:
    """A Python list.  items: host list of values (concrete spine)  or  e: z3 Seq term (symbolic spine)."""

    def __init__(self, items=None, e=None, ety=None, cls=list):
        self.items = items
        self.e = e
        self.ety = ety
        self.cls = cls      # list or a list subclass (shell_list)

    @property
    def concrete(self):
        return self.items is not None

    def __repr__(self):
        return 'PList(%r)' % (self.items if self.concrete else self.e)


class PDict:
    """A Python dict with concrete keys (insertion ordered)."""

    def __init__(self, d=None):
        self.d = dict(d or {})


class SymMap:
    """A dict with symbolic key set: dom: Array K->Bool, val: Array K->V; `none`: Array K->Bool marks keys whose
    value is None (Optional values); `keys`: ghost sequence in which the keys are iterated (created on demand)."""

    def __init__(self, dom, val, kty, vty, none=None, keys=None):
        self.dom, self.val, self.kty, self.vty, self.none, self.keys = dom, val, kty, vty, none, keys

    def copy(self):
        return SymMap(self.dom, self.val, self.kty, self.vty, self.none, self.keys)

    @staticmethod
    def fresh(prefix, kty='str', vty='str', optional=False):
        import z3 as _z
        ks, vs = z3sort(kty), z3sort(vty)
        return SymMap(_z.Const(prefix + '_dom', _z.ArraySort(ks, _z.BoolSort())),
                      _z.Const(prefix + '_val', _z.ArraySort(ks, vs)), kty, vty,
                      _z.Const(prefix + '_none', _z.ArraySort(ks, _z.BoolSort())) if optional else None)

    @staticmethod
    def empty(kty='str', vty='str', optional=False):
        import z3 as _z
        ks, vs = z3sort(kty), z3sort(vty)
        return SymMap(_z.K(ks, _z.BoolVal(False)), _z.Const('unspecified_val_%s' % vty, _z.ArraySort(ks, vs)), kty, vty,
                      _z.K(ks, _z.BoolVal(False)) if optional else None)


class Obj:
    def __init__(self, cls, attrs=None):
        self.cls = cls
        self.attrs = dict(attrs or {})

    def __repr__(self):
        return 'Obj<%s %r>' % (self.cls.__name__, self.attrs)


class PStream:
    """io.StringIO as a ghost string: write appends, getvalue reads (one owner per stream)."""

    def __init__(self, buf=''):
        self.buf = buf


class Closure:
    def __init__(self, node, envs, globs, clsname, name=None, defaults=None, kwdefaults=None):
        self.node, self.envs, self.globs, self.clsname = node, envs, globs, clsname
        self.name = name or getattr(node, 'name', '<lambda>')
        self.defaults = defaults or []
        self.kwdefaults = kwdefaults or {}


class BoundMethod:
    def __init__(self, fn, self_):
        self.fn, self.self_ = fn, self_


class ExcVal:
    def __init__(self, cls, args=()):
        self.cls, self.args = cls, args

    def __repr__(self):
        return 'ExcVal(%s)' % self.cls.__name__


class IterState:
    """iter(x) over a concrete-spine sequence."""

    def __init__(self, items):
        self.items = list(items)
        self.pos = 0


class OpaqueFn:
    """A callable whose behaviour is an uninterpreted function (e.g. a glob component matcher)."""

    def __init__(self, name, apply):
        self.name, self.apply = name, apply


_SORTS = {}


def opaque_sort(name):
    if name not in _SORTS:
        _SORTS[name] = z3.DeclareSort(name)
    return _SORTS[name]


def z3sort(ty):
    if ty == 'int':
        return T.Int
    if ty == 'bool':
        return T.Bool
    if ty == 'str':
        return T.Str
    if ty == 'real':
        return z3.RealSort()
    if isinstance(ty, tuple):
        if ty[0] in ('seq', 'list'):
            return z3.SeqSort(z3sort(ty[1]))
        if ty[0] == 'opaque':
            return opaque_sort(ty[1])
        if ty[0] == 'enum':
            return T.Int
        if ty[0] == 'z3':
            return ty[1]
        if ty[0] == 'obj':
            return ty[2]
    raise TypeError('no z3 sort for %r' % (ty,))


def lift(v, ty=None):
    """z3 term for a value (concrete or Sym)."""
    if isinstance(v, Sym):
        return v.e
    if isinstance(v, bool):
        return z3.BoolVal(v)
    if isinstance(v, int):
        return z3.IntVal(v)
    if isinstance(v, str):
        return T.lit(v)
    import enum
    if isinstance(v, enum.Enum):
        return z3.IntVal(list(type(v)).index(v))
    if z3.is_expr(v):
        return v
    raise TypeError('cannot lift %r' % (v,))


def tyof(v):
    if isinstance(v, Sym):
        return v.ty
    if isinstance(v, bool):
        return 'bool'
    if isinstance(v, int):
        return 'int'
    if isinstance(v, str):
        return 'str'
    import enum
    if isinstance(v, enum.Enum):
        return ('enum', type(v))
    return None


def is_symbolic(v):
    return isinstance(v, Sym)


def fresh_sym(prefix, ty):
    return Sym(T.fresh(prefix, z3sort(ty)), ty)


def clone_value(v, memo=None):
    """Deep copy of the mutable holders (Obj, PList, PDict, PStream); terms and host objects are shared."""
    if memo is None:
        memo = {}
    if id(v) in memo:
        return memo[id(v)]
    if isinstance(v, Obj):
        o = Obj(v.cls)
        memo[id(v)] = o
        o.attrs = {k: clone_value(x, memo) for k, x in v.attrs.items()}
        for k, x in v.__dict__.items():
            if k in ('cls', 'attrs'):
                continue
            o.__dict__[k] = [clone_value(y, memo) for y in x] if k == 'tuple_items' else x
        return o
    if isinstance(v, PList):
        o = PList(None, v.e, v.ety, v.cls)
        memo[id(v)] = o
        if v.items is not None:
            o.items = [clone_value(x, memo) for x in v.items]
        return o
    if isinstance(v, PDict):
        o = PDict()
        memo[id(v)] = o
        o.d = {(clone_value(k, memo) if isinstance(k, Obj) else k): clone_value(x, memo) for k, x in v.d.items()}
        return o
    if isinstance(v, PStream):
        o = PStream(v.buf)
        memo[id(v)] = o
        return o
    if isinstance(v, SymMap):
        o = v.copy()
        memo[id(v)] = o
        return o
    if isinstance(v, tuple):
        return tuple(clone_value(x, memo) for x in v)
    return v
