"""Differential validation of specs/sh.py against /bin/sh (dash): for generated lines, whenever the spec says
"read literally as words W", the real shell must produce exactly W.  A disagreement is a bug of the *spec*."""
import itertools, subprocess, sys, random
from specs.sh import sh_words


def real(lines):
    # one sh invocation per batch: each line printed as  <NUL-joined words> \x01
    script = ''.join("set -- %s\nif [ $# -gt 0 ]; then printf '%%s\\0' \"$@\"; fi; printf '\\001'\n" % l for l in lines)
    p = subprocess.run(['/bin/sh', '-c', script], capture_output=True, timeout=60)
    outs = p.stdout.split(b'\x01')[:-1]
    return [[w.decode('utf-8', 'replace') for w in o.split(b'\0')[:-1]] for o in outs]


def main(maxlen=4, alphabet="a '\\$#\t~=-", limit=40000, seed=0):
    rng = random.Random(seed)
    lines = [''.join(t) for n in range(1, maxlen + 1) for t in itertools.product(alphabet, repeat=n)]
    if len(lines) > limit:
        lines = rng.sample(lines, limit)
    checked = bad = 0
    batch = []
    for l in lines:
        w = sh_words(l)
        if w is None or '\n' in l:
            continue
        batch.append((l, w))
    for k in range(0, len(batch), 500):
        chunk = batch[k:k + 500]
        got = real([l for l, _ in chunk])
        if len(got) != len(chunk):
            # a line broke the batch (syntax error): fall back to one by one
            got = []
            for l, _ in chunk:
                g = real([l])
                got.append(g[0] if g else None)
        for (l, w), g in zip(chunk, got):
            checked += 1
            if g != w:
                bad += 1
                if bad <= 10:
                    print('SPEC-MISMATCH line=%r spec=%r sh=%r' % (l, w, g))
    print('validate_sh: %d lines the spec reads literally, %d disagreements with /bin/sh' % (checked, bad))
    return checked, bad


if __name__ == '__main__':
    c, b = main()
    sys.exit(1 if b else 0)
