"""Differential validation of specs/make.py against the real GNU make: whenever a spec fold says "this text is read
literally as C", make must read it as C.  A disagreement is a bug of the *spec* (exit 1 here, CHECK-ERROR in a check).

  assignment:  X := TEXT              -> $(file >out,$(X))
  recipe:      <tab>TEXT              -> the line make hands to $(SHELL) (captured by a SHELL that dumps its -c argument)
  target/dep:  all: DEP / TGT: ; ...  -> $@ written with $(file ...); both sides must name the same file
  call arg:    $(call F,TEXT)         -> $(1)
"""
import itertools, os, random, shutil, subprocess, sys, tempfile
from specs import make as MK


def run_make(d, mk, *args):
    open(os.path.join(d, 'Makefile'), 'w').write(mk)
    return subprocess.run(['make', '-C', d, '-s'] + list(args), capture_output=True, text=True, timeout=20)


def read_out(d, name='out.txt'):
    p = os.path.join(d, name)
    if not os.path.exists(p):
        return None
    s = open(p).read()
    os.unlink(p)
    return s


def spec_assign(t):
    st, out = MK.mk_assign.pyrun_codes((MK.N, 0, 1), t)
    if st[0] != MK.N or st[2] != 1:
        return None
    return ''.join(chr(c) for c in out) + '\\' * st[1]


def spec_recipe(t):
    st, out = MK.mk_recipe.pyrun_codes((MK.N, 1, 1), t)
    if st[0] != MK.N or st[1] != 1:
        return None
    return ''.join(chr(c) for c in out)


def spec_word(fold, t):
    st, out = fold.pyrun_codes((MK.N, 0, 1, 1, 0), t)
    if st[0] != MK.N or st[2] != 1 or st[4] != 0:
        return None
    return ''.join(chr(c) for c in out) + '\\' * st[1]


def spec_call(t):
    st, out = MK.mk_call_arg.pyrun_codes((MK.N, 1, 0), t)
    if st[0] != MK.N or st[1] != 1 or st[2] != 0:
        return None
    return ''.join(chr(c) for c in out)


def texts(alphabet, maxlen, limit, rng):
    ts = [''.join(t) for n in range(1, maxlen + 1) for t in itertools.product(alphabet, repeat=n)]
    return ts if len(ts) <= limit else rng.sample(ts, limit)


def main(limit=250, seed=0, verbose=False):
    rng = random.Random(seed)
    d = tempfile.mkdtemp(prefix='vmake')
    bad = checked = 0
    try:
        cap = os.path.join(d, 'capture.sh')
        open(cap, 'w').write('#!/bin/sh\n# $1 is -c, $2 the command line\nprintf "%s" "$2" > "%s/out.txt"\n' % ('%s', d))
        os.chmod(cap, 0o755)
        # assignment values
        for t in texts("a $#\\'", 4, limit, rng):
            want = spec_assign(t)
            if want is None or t[0] in ' \t' or t.endswith('\\'):
                continue
            run_make(d, 'X := %s\nall:\n\t$(file >%s/out.txt,$(X))\n' % (t, d))
            got = read_out(d)
            checked += 1
            if got is None or got.rstrip('\n') != want:
                bad += 1
                print('SPEC-MISMATCH assignment text=%r spec=%r make=%r' % (t, want, got))
        # recipe lines
        for t in texts("a $#@-'", 4, limit, rng):
            want = spec_recipe(t)
            if want is None or t[0] in ' \t':
                continue
            run_make(d, 'SHELL = %s\nall:\n\t%s\n' % (cap, t))
            got = read_out(d)
            checked += 1
            if got != want:
                bad += 1
                print('SPEC-MISMATCH recipe text=%r spec=%r make=%r' % (t, want, got))
        # target and dependency words (the two spellings produced for one name must name one file)
        for t in texts("a\\ :#%$|~", 4, limit, rng):
            wt, wd = spec_word(MK.mk_target, t), spec_word(MK.mk_dep, t)
            if wt is None or not wt or '/' in wt or t.endswith('\\'):
                continue      # a trailing backslash is a line continuation (names with backslashes are outside the property)
            run_make(d, '%s:\n\t$(file >%s/out.txt,$@)\n' % (t, d), '--', wt)
            got = read_out(d)
            checked += 1
            if got is None or got.rstrip('\n') != wt:
                bad += 1
                print('SPEC-MISMATCH target text=%r spec=%r make=%r' % (t, wt, got))
            if wd is not None and wd and '/' not in wd:
                p = run_make(d, 'all: %s\n%%:\n\t$(file >>%s/out.txt,$@)\n' % (t, d))
                got = read_out(d)
                checked += 1
                if got is None or wd not in got.split('\n'):
                    bad += 1
                    print('SPEC-MISMATCH dependency text=%r spec=%r make=%r' % (t, wd, got))
        # call arguments
        for t in texts("a$,() '", 4, limit, rng):
            want = spec_call(t)
            if want is None or t[0] in ' \t':
                continue
            run_make(d, ', := ,\nF = $(file >%s/out.txt,$(1))\nall:\n\t$(call F,%s)\n' % (d, t))
            got = read_out(d)
            checked += 1
            if got is None or got.rstrip('\n') != want:
                bad += 1
                print('SPEC-MISMATCH call text=%r spec=%r make=%r' % (t, want, got))
    finally:
        shutil.rmtree(d, ignore_errors=True)
    print('validate_make: %d texts the spec reads literally, %d disagreements with GNU make' % (checked, bad))
    return checked, bad


if __name__ == '__main__':
    c, b = main(limit=int(sys.argv[1]) if len(sys.argv) > 1 else 250)
    sys.exit(1 if b else 0)
