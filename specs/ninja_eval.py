"""A small evaluator for the build.ninja files bfg9000 writes (no ninja binary exists in the sandbox).

Written from the ninja manual ("Ninja file reference": lexical syntax, variable scoping, evaluation of rule bindings
in the scope of the build statement with `in` / `out` defined).  Supported: top-level bindings, `rule` blocks, `build`
statements with explicit / implicit (`|`) / order-only (`||`) dependencies and indented bindings, `default`; escapes
`$$`, `$ `, `$:`, `$\\n`; references `$name` and `${name}`.  `in` and `out` are joined with blanks, shell-quoted the way
ninja does (only when a path contains a character outside [A-Za-z0-9_+-./]).  Not supported (not written by
bfg9000): include / subninja, pools beyond the binding, dyndep, response files."""
import re

_SAFE = re.compile(r'^[A-Za-z0-9_+\-./]+$')


class NinjaError(Exception):
    pass


def shell_escape(p):
    if _SAFE.match(p):
        return p
    return "'" + p.replace("'", "'\\''") + "'"


def _expand(text, lookup):
    out, i, n = [], 0, len(text)
    while i < n:
        c = text[i]
        if c != '$':
            out.append(c)
            i += 1
            continue
        if i + 1 >= n:
            raise NinjaError('dangling $')
        d = text[i + 1]
        if d in '$ :':
            out.append(d)
            i += 2
        elif d == '\n':
            i += 2
            while i < n and text[i] == ' ':
                i += 1
        elif d == '{':
            j = text.index('}', i)
            out.append(lookup(text[i + 2:j]))
            i = j + 1
        else:
            m = re.match(r'[A-Za-z0-9_-]+', text[i + 1:])
            if not m:
                raise NinjaError('bad $-escape %r' % text[i:i + 2])
            out.append(lookup(m.group(0)))
            i += 1 + len(m.group(0))
    return ''.join(out)


def _split_paths(text):
    """Split a build line part at unescaped blanks / `|` / `:`; returns raw (still escaped) words and separators."""
    toks, cur, i = [], '', 0
    while i < len(text):
        c = text[i]
        if c == '$' and i + 1 < len(text):
            cur += text[i:i + 2]
            i += 2
            continue
        if c in ' :|':
            if cur:
                toks.append(cur)
                cur = ''
            if c == '|':
                if text[i:i + 2] == '||':
                    toks.append('||')
                    i += 2
                    continue
                toks.append('|')
            elif c == ':':
                toks.append(':')
            i += 1
            continue
        cur += c
        i += 1
    if cur:
        toks.append(cur)
    return toks


class Build:
    def __init__(self, outputs, rule, inputs, implicit, order_only, bindings):
        self.outputs, self.rule, self.inputs, self.implicit, self.order_only = outputs, rule, inputs, implicit, order_only
        self.bindings = bindings


class NinjaFile:
    def __init__(self, text):
        self.vars, self.rules, self.builds, self.defaults = {}, {'phony': {}}, [], []
        lines = text.split('\n')
        i = 0
        # join `$\n` continuations
        joined = []
        for l in lines:
            if joined and joined[-1].endswith('$') and not joined[-1].endswith('$$'):
                joined[-1] = joined[-1][:-1] + l.lstrip(' ')
            else:
                joined.append(l)
        lines = joined
        while i < len(lines):
            l = lines[i]
            i += 1
            if not l.strip() or l.lstrip().startswith('#'):
                continue
            if l.startswith('rule '):
                name = l[5:].strip()
                b = {}
                while i < len(lines) and lines[i].startswith(' '):
                    k, v = lines[i].strip().split('=', 1)
                    b[k.strip()] = v.lstrip(' ')
                    i += 1
                self.rules[name] = b
            elif l.startswith('build '):
                toks = _split_paths(l[6:])
                ci = toks.index(':')
                outs = [self.path(t) for t in toks[:ci] if t not in ('|', '||')]
                rule = toks[ci + 1]
                rest = toks[ci + 2:]
                parts, cur = {'in': [], '|': [], '||': []}, 'in'
                for t in rest:
                    if t in ('|', '||'):
                        cur = t
                    else:
                        parts[cur].append(self.path(t))
                b = {}
                while i < len(lines) and lines[i].startswith(' '):
                    k, v = lines[i].strip().split('=', 1)
                    b[k.strip()] = v.lstrip(' ')
                    i += 1
                self.builds.append(Build(outs, rule, parts['in'], parts['|'], parts['||'], b))
            elif l.startswith('default '):
                self.defaults += [self.path(t) for t in _split_paths(l[8:])]
            elif '=' in l and not l.startswith(' '):
                k, v = l.split('=', 1)
                self.vars[k.strip()] = _expand(v.lstrip(' '), self.file_var)
            else:
                raise NinjaError('cannot read line %r' % l)

    def file_var(self, name):
        return self.vars.get(name, '')

    def path(self, raw):
        return _expand(raw, self.file_var)

    def command(self, build):
        """The command line ninja hands to sh for this build statement ('' for phony)."""
        rule = self.rules.get(build.rule)
        if rule is None:
            raise NinjaError('unknown rule %r' % build.rule)
        if build.rule == 'phony':
            return ''
        seen = []

        def lookup(name):
            if name == 'in':
                return ' '.join(shell_escape(p) for p in build.inputs)
            if name == 'out':
                return ' '.join(shell_escape(p) for p in build.outputs)
            if name in build.bindings:
                if ('b', name) in seen:
                    raise NinjaError('cycle in %s' % name)
                seen.append(('b', name))
                # a build-level binding sees the enclosing (file) scope, not itself
                r = _expand(build.bindings[name], lambda n: lookup_outer(n))
                seen.pop()
                return r
            if name in rule and name != 'command':
                return _expand(rule[name], lookup)
            return self.file_var(name)

        def lookup_outer(name):
            if name == 'in':
                return ' '.join(shell_escape(p) for p in build.inputs)
            if name == 'out':
                return ' '.join(shell_escape(p) for p in build.outputs)
            return self.file_var(name)
        return _expand(rule.get('command', ''), lookup)
