"""Ninja manifest lexing (ninja manual, "Lexical syntax" / src/lexer.in.cc ReadEvalString) as left folds.

nj_value: reading of a variable *value* (rest of the line after `name =`, leading blanks already skipped):
          `$$`->`$`, `$ `->` `, `$:`->`:`; `$` + anything else is a variable reference / continuation / error;
          a line break ends the value.  state = (q, ok): q in NORMAL / DOLLAR; ok = 0 as soon as the text is
          not read as pure literal text of *this* value.
nj_path:  reading of a path in a build statement: as above, but an unescaped blank, `:`, `|` or line break
          terminates the path (ok = 0: the rest would be read as something else).

No ninja binary exists in the sandbox: these folds are written from the manual and are an UNVALIDATED assumption.
"""
from pyvc.terms import Fold, CharClass, ite, eq, unit, empty, AND, OR, NOT

NORMAL, DOLLAR, REF = 0, 1, 2      # REF: inside `${name}`
VAR = -2
LBRACE, RBRACE = ord('{'), ord('}')
DOLLAR_CH = ord('$')
ESCAPABLE = CharClass.of('$ :', 'nj-escapable')
VALUE_END = CharClass.of('\n\r', 'nj-value-end')     # \r: ninja rejects carriage returns outright
PATH_END = CharClass.of(' :|\n\r', 'nj-path-end')


def _step(endcls):
    def step(st, c):
        q, ok = st
        is_d = eq(c, DOLLAR_CH)
        is_l, is_r = eq(c, LBRACE), eq(c, RBRACE)
        q2 = ite(eq(q, NORMAL), ite(is_d, DOLLAR, NORMAL),
             ite(eq(q, DOLLAR), ite(is_l, REF, NORMAL),
                 ite(is_r, NORMAL, REF)))
        bad = OR(AND(eq(q, NORMAL), endcls.contains(c)),
                 AND(eq(q, DOLLAR), NOT(OR(ESCAPABLE.contains(c), is_l))),
                 AND(eq(q, REF), OR(is_d, is_l, endcls.contains(c))))
        ok2 = ite(bad, 0, ok)
        out = ite(eq(q, NORMAL), ite(is_d, empty(), unit(c)),
              ite(eq(q, DOLLAR), ite(is_l, empty(), unit(c)),
                  ite(is_r, unit(VAR), empty())))
        return (q2, ok2), out
    return step


nj_value = Fold('nj_value', 2, _step(VALUE_END), 'ninja variable value lexing')
nj_path = Fold('nj_path', 2, _step(PATH_END), 'ninja path lexing')


def literal_value(fold, w, content):
    """w is read by ninja as exactly the literal text `content`."""
    st, out = fold.run((NORMAL, 1), w)
    return AND(st[0] == NORMAL, st[1] == 1, out == content)


class NinjaReadError(Exception):
    pass


def nj_expand_py(text, env):
    """Evaluation of a ninja value text: `$$` `$ ` `$:` escapes, `${name}` / `$name` references (not rescanned)."""
    out, i = [], 0
    while i < len(text):
        c = text[i]
        if c == '\n':
            raise NinjaReadError('line break inside value')
        if c != '$':
            out.append(c)
            i += 1
            continue
        if i + 1 >= len(text):
            raise NinjaReadError('trailing $')
        d = text[i + 1]
        if d in '$ :':
            out.append(d)
            i += 2
        elif d == '{':
            j = text.find('}', i + 2)
            if j < 0:
                raise NinjaReadError('unterminated ${')
            name = text[i + 2:j]
            if name not in env:
                raise NinjaReadError('reference to %r' % name)
            out.append(env[name])
            i = j + 1
        elif d.isalnum() or d in '_-':
            j = i + 1
            while j < len(text) and (text[j].isalnum() or text[j] in '_-'):
                j += 1
            name = text[i + 1:j]
            if name not in env:
                raise NinjaReadError('reference to %r' % name)
            out.append(env[name])
            i = j
        else:
            raise NinjaReadError('bad $-escape %r' % d)
    return ''.join(out)
