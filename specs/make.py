"""GNU Make (4.x) reading of generated Makefile text, as left folds.  Written from the GNU make manual and
the probes recorded in DESIGN.md Appendix B; validated against /usr/bin/make by specs/validate_make.py.

mk_recipe   text of a recipe line (after the tab) -> the line handed to sh:   `$$` -> `$`; any other `$x` is a
            reference (ok = 0).  A leading `@`, `-` or `+` is consumed by make as a recipe prefix (ok = 0 when
            the *first* character of the text is one of them -- the writer emits its own `@` before the text).
mk_assign   value text of `NAME := value` -> the value: as above, and an unescaped `#` starts a comment
            (ok = 0); backslashes before `#` follow the 2n+1 rule.
mk_word     a word in target / dependency position of an explicit rule -> the file name make uses:
            `$$` -> `$`; a run of backslashes before a character of the side's unquote set follows the 2n+1 rule
            (target side: blank, tab, `:`, `#`, `%`;  dependency side: blank, tab, `:`, `#`, `|`);
            an unescaped member of that set, a wildcard character, `;`, `=`, a leading `~` end or change the
            word (ok = 0);  before every other character backslashes stay verbatim (so `\\%` stays `\\%` on
            the dependency side).
mk_call_arg one argument of `$(call f,ARG)`: arguments are split at top-level commas and the call ends at the
            unbalanced `)` *before* expansion, so a comma is a separator even directly after `$`.
state layout: (q, j, ok, pos0, aux)   q: 0 normal / 1 after `$`;  j: pending backslashes;  pos0: 1 before the
first character;  aux: paren depth (call) / last-character flag (word).
"""
from pyvc.terms import Fold, CharClass, ite, eq, unit, empty, AND, OR, NOT, rep, cat

N, D, R = 0, 1, 2          # normal / after `$` / inside a `$(name)` reference
VAR = -2                   # marker emitted for a variable reference (its value is substituted by make, not rescanned)
LPAR, RPAR = ord('('), ord(')')
DOLLAR, BS, HASH, COMMA, LP, RP, TILDE = ord('$'), ord('\\'), ord('#'), ord(','), ord('('), ord(')'), ord('~')
PREFIX = CharClass.of('@-+', 'recipe-prefix')
LINEBREAK = CharClass.of('\n\r', 'linebreak')
UNQ_TARGET = CharClass.of(' \t:#%', 'unquote-target')
UNQ_DEP = CharClass.of(' \t:#|', 'unquote-dep')
WORD_BAD = CharClass.of('*?[];=\n\r', 'word-bad')
TAIL_BAD = CharClass.of(' &', 'tail-bad')


def _recipe_step(st, c):
    q, ok, pos0 = st
    is_d = eq(c, DOLLAR)
    is_l, is_r = eq(c, LPAR), eq(c, RPAR)
    q2 = ite(eq(q, N), ite(is_d, D, N),
         ite(eq(q, D), ite(is_l, R, N),
             ite(is_r, N, R)))
    bad = OR(AND(eq(q, D), NOT(OR(is_d, is_l))),
             AND(eq(q, R), OR(is_d, is_l)),                 # nested references / function calls: not modelled
             AND(eq(pos0, 1), PREFIX.contains(c)), LINEBREAK.contains(c))
    out = ite(eq(q, N), ite(is_d, empty(), unit(c)),
          ite(eq(q, D), ite(is_l, empty(), unit(c)),
              ite(is_r, unit(VAR), empty())))
    return (q2, ite(bad, 0, ok), 0), out


mk_recipe = Fold('mk_recipe', 3, _recipe_step, 'GNU make recipe line -> sh line')


def _assign_step(st, c):
    q, j, ok = st
    is_d = eq(c, DOLLAR)
    is_b = eq(c, BS)
    is_h = eq(c, HASH)
    odd = NOT(eq(j % 2, 0)) if not isinstance(j, int) else (j % 2 != 0)
    half = j // 2 if isinstance(j, int) else j / 2
    in_n = eq(q, N)
    q2 = ite(in_n, ite(is_d, D, N), N)
    j2 = ite(AND(in_n, is_b), j + 1, 0)
    bad = OR(AND(eq(q, D), NOT(is_d)), AND(in_n, is_h, NOT(odd)), LINEBREAK.contains(c))
    out = ite(in_n,
              ite(is_d, rep(BS, j),
              ite(is_b, empty(),
              ite(is_h, cat(rep(BS, half), unit(c)), cat(rep(BS, j), unit(c))))),
              unit(c))
    return (q2, j2, ite(bad, 0, ok)), out


mk_assign = Fold('mk_assign', 3, _assign_step, 'GNU make := value -> value')


def _word_step(unq):
    def step(st, c):
        q, j, ok, pos0, tail = st
        is_d = eq(c, DOLLAR)
        is_b = eq(c, BS)
        in_n = eq(q, N)
        special = unq.contains(c)
        odd = NOT(eq(j % 2, 0)) if not isinstance(j, int) else (j % 2 != 0)
        half = j // 2 if isinstance(j, int) else j / 2
        q2 = ite(in_n, ite(is_d, D, N), N)
        j2 = ite(AND(in_n, is_b), j + 1, 0)
        bad = OR(AND(eq(q, D), NOT(is_d)),
                 AND(in_n, special, NOT(odd)),
                 AND(in_n, WORD_BAD.contains(c)),
                 AND(in_n, eq(pos0, 1), eq(c, TILDE)))
        out = ite(in_n,
                  ite(is_d, rep(BS, j),
                  ite(is_b, empty(),
                  ite(special, cat(rep(BS, half), unit(c)), cat(rep(BS, j), unit(c))))),
                  unit(c))
        tail2 = ite(AND(in_n, OR(is_d, is_b)), tail, ite(TAIL_BAD.contains(c), 1, 0))
        return (q2, j2, ite(bad, 0, ok), 0, tail2), out
    return step


mk_target = Fold('mk_target', 5, _word_step(UNQ_TARGET), 'GNU make target word -> file name')
mk_dep = Fold('mk_dep', 5, _word_step(UNQ_DEP), 'GNU make prerequisite word -> file name')


def _call_step(st, c):
    q, ok, depth = st
    is_d = eq(c, DOLLAR)
    in_n = eq(q, N)
    q2 = ite(in_n, ite(is_d, D, N), N)
    is_comma = eq(c, COMMA)
    # `$,` is a reference to the variable named `,` (defined as `,` by the generated Makefile)
    bad = OR(AND(is_comma, eq(depth, 0)),
             AND(eq(q, D), NOT(OR(is_d, is_comma))),
             AND(eq(c, RP), eq(depth, 0)),
             LINEBREAK.contains(c))
    depth2 = ite(eq(c, LP), depth + 1, ite(eq(c, RP), depth - 1, depth))
    out = ite(in_n, ite(is_d, empty(), unit(c)), unit(c))
    return (q2, ite(bad, 0, ok), depth2), out


mk_call_arg = Fold('mk_call_arg', 3, _call_step, 'argument of $(call ...) -> expanded argument')


def reads_as(fold, init, w, content, final_ok):
    st, out = fold.run(init, w)
    return AND(final_ok(st), out == content)


def recipe_reads(w, content):
    return reads_as(mk_recipe, (N, 1, 1), w, content, lambda st: AND(st[0] == N, st[1] == 1))


def assign_reads(w, content):
    """leading blanks of the value are stripped by make; callers make sure the first character is no blank."""
    st, out = mk_assign.run((N, 0, 1), w)
    return AND(st[0] == N, st[2] == 1, cat(out, rep(BS, st[1])) == content)


def word_reads(fold, w, content):
    st, out = fold.run((N, 0, 1, 1, 0), w)
    return AND(st[0] == N, st[2] == 1, st[4] == 0, cat(out, rep(BS, st[1])) == content)


def call_arg_reads(w, content):
    st, out = mk_call_arg.run((N, 1, 0), w)
    return AND(st[0] == N, st[1] == 1, st[2] == 0, out == content)


# ---- concrete (Python) readers used by the bounded native harnesses ------------------------------------

class MakeReadError(Exception):
    pass


def mk_expand_py(text, env):
    """Expansion of `text` by make: `$$` -> `$`, `$(name)`/`${name}`/`$x` -> env value (not rescanned)."""
    out, i = [], 0
    while i < len(text):
        c = text[i]
        if c != '$':
            out.append(c)
            i += 1
            continue
        if i + 1 >= len(text):
            raise MakeReadError('trailing $')
        d = text[i + 1]
        if d == '$':
            out.append('$')
            i += 2
        elif d in '({':
            close = ')' if d == '(' else '}'
            j = text.find(close, i + 2)
            if j < 0:
                raise MakeReadError('unterminated reference')
            name = text[i + 2:j]
            if name not in env:
                raise MakeReadError('reference to %r' % name)
            out.append(env[name])
            i = j + 1
        else:
            if d not in env:
                raise MakeReadError('reference to %r' % d)
            out.append(env[d])
            i += 2
    return ''.join(out)


def mk_strip_comment_py(line):
    """remove_comments: an unescaped `#` starts a comment; backslashes before `#` follow the 2n+1 rule."""
    out, i = [], 0
    while i < len(line):
        if line[i] == '\\':
            j = i
            while j < len(line) and line[j] == '\\':
                j += 1
            n = j - i
            if j < len(line) and line[j] == '#':
                out.append('\\' * (n // 2))
                if n % 2 == 0:
                    return ''.join(out)
                out.append('#')
                i = j + 1
            else:
                out.append('\\' * n)
                i = j
        elif line[i] == '#':
            return ''.join(out)
        else:
            out.append(line[i])
            i += 1
    return ''.join(out)


def mk_assignment_value_py(line, env):
    """`NAME := value` (or `target: NAME := value`) -> (NAME, value as later substituted into a recipe)."""
    line = mk_strip_comment_py(line)
    if ':=' not in line:
        raise MakeReadError('no :=')
    lhs, rhs = line.split(':=', 1)
    return lhs.strip().split()[-1], mk_expand_py(rhs.lstrip(' \t'), env)


def mk_recipe_line_py(text, env):
    """A recipe line (after the tab): prefix characters are consumed by make, the rest is expanded."""
    i = 0
    prefixes = ''
    while i < len(text) and text[i] in '@-+ \t':
        prefixes += text[i]
        i += 1
    return prefixes, mk_expand_py(text[i:], env)
