"""POSIX sh token recognition (XCU 2.2-2.3) as a left fold, restricted to what a generated command line
uses: unquoted text, '...' quoting, backslash escapes, blank separation, `#` comments.

state = (q, ok):  q in START (between words) / WORD (inside an unquoted part of a word) / SQ (inside '...') /
ESC (after an unquoted backslash) / COMMENT;  ok = 1 until some unquoted character is *re-interpreted*
by the shell (operator, expansion, glob, comment, line break) -- after that the reading is not literal.
output: the characters of the words read so far, words separated by BREAK (= -1, not a code point).

Not modelled (stated assumption): "..." and $'...' quoting (never produced by posix.quote; an unquoted `"`
is ACTIVE), reserved words and assignment words in command position (`a=b` as a *command word*), alias
expansion, here-documents.  Validated against /bin/sh (dash) by specs/validate_sh.py.
"""
from pyvc.terms import Fold, CharClass, ite, eq, unit, empty, AND, OR, NOT

START, WORD, SQ, ESC, COMMENT = 0, 1, 2, 3, 4
BREAK = -1

# characters that the shell re-interprets when they occur unquoted in a word
ACTIVE = CharClass.of('|&;<>()$`"*?[~!{}\n\r', 'sh-active')     # `#` is special only at the start of a word
BLANK = CharClass.of(' \t', 'sh-blank')
# characters with a meaning of their own in the fold: quote, backslash, blanks
QUOTE, BSLASH, HASH = ord("'"), ord('\\'), ord('#')
# everything that is not inert in unquoted text
NOT_INERT = ACTIVE.union(BLANK).union(CharClass.of("'\\#", 'sh-quoting-or-comment'))
NOT_INERT.name = 'sh-not-inert'


def sh_step(st, c):
    q, ok = st
    is_q = eq(c, QUOTE)
    is_b = eq(c, BSLASH)
    blank = BLANK.contains(c)
    active = ACTIVE.contains(c)
    unq = OR(eq(q, START), eq(q, WORD))
    # next state
    q2 = ite(eq(q, SQ), ite(is_q, WORD, SQ),
         ite(eq(q, ESC), WORD,
         ite(eq(q, COMMENT), COMMENT,
         ite(is_q, SQ,
         ite(is_b, ESC,
         ite(blank, START,
         ite(AND(eq(c, HASH), eq(q, START)), COMMENT, WORD)))))))
    # negative codes other than BREAK are *markers* for text substituted by the build tool (the value of a path
    # variable such as $(srcdir)): literal inside quotes; unquoted they would be re-read by the shell
    is_marker = (c < 0) if isinstance(c, int) else (c < 0)
    bad = OR(eq(q, COMMENT),
             AND(unq, is_marker),
             AND(unq, NOT(is_q), NOT(is_b), NOT(blank), active),
             AND(eq(q, ESC), OR(eq(c, 10), eq(c, 13))))
    ok2 = ite(bad, 0, ok)
    out = ite(eq(q, SQ), ite(is_q, empty(), unit(c)),
          ite(eq(q, ESC), unit(c),
          ite(eq(q, COMMENT), empty(),
          ite(OR(is_q, is_b), empty(),
          ite(blank, ite(eq(q, WORD), unit(BREAK), empty()),
          ite(AND(eq(c, HASH), eq(q, START)), empty(), unit(c)))))))
    return (q2, ok2), out


sh = Fold('sh', 2, sh_step, 'POSIX sh token recognition')


def words_of(state, out):
    """Concrete helper: python list of words from a pyrun result."""
    (q, ok) = state
    ws = out.split(chr(0x10ffff)) if False else None
    return ws


def py_lex(line):
    """Concrete reading of a command line: (words, ok, closed). Words as python strings."""
    st = (START, 1)
    words, cur, have = [], [], False
    for ch in line:
        (q2, ok2), o = sh_step(st, ord(ch))
        from pyvc.terms import _as_int, flat_parts, is_unit
        import z3
        q2, ok2 = _as_int(q2), _as_int(ok2)
        o = z3.simplify(o) if z3.is_expr(o) else o
        for p in flat_parts(o):
            v = p.arg(0).as_long()
            if v == BREAK:
                words.append(''.join(cur))
                cur, have = [], False
            else:
                cur.append(chr(v))
        if q2 in (WORD, SQ, ESC):
            have = True
        st = (q2, ok2)
    closed = st[0] in (START, WORD, COMMENT)
    if st[0] in (WORD,) or (have and st[0] != START):
        words.append(''.join(cur))
    return words, bool(st[1]), closed


def sh_words(line):
    """Concrete reading by the spec fold: list of words, or None if the line is not read purely literally
    (some unquoted character would be re-interpreted, or a quote is left open)."""
    st, out = sh.pyrun_codes((START, 1), line)
    if st[1] != 1 or st[0] not in (START, WORD):
        return None
    words, cur = [], []
    started = False
    # replay to know where words start (an empty word '' produces no output)
    q = (START, 1)
    from pyvc import terms as _T
    _T._CONCRETE[0] = True
    try:
        for ch in line:
            q2, o = sh_step(q, ord(ch))
            if q[0] == START and q2[0] in (WORD, SQ, ESC):
                started = True
            for v in o:
                if v == BREAK:
                    words.append(''.join(cur))
                    cur, started = [], False
                else:
                    cur.append(chr(v))
            q = tuple(int(x) for x in q2)
    finally:
        _T._CONCRETE[0] = False
    if started:
        words.append(''.join(cur))
    return words
