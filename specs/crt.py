"""Microsoft C runtime command-line parsing (parse_cmdline, the post-2008 rules documented under "Parsing C
command-line arguments") for the arguments after the program name, as a left fold.

state (mode, j):  mode 0 between arguments / 1 inside an argument, outside quotes / 2 inside quotes /
                  3 inside an argument, directly after a quote that closed a quoted part (a following `"` is the
                  `""` -> literal quote rule);   j = number of pending backslashes.
  backslash            j + 1 (starts an argument if between arguments)
  `"` after j bs       emits j/2 backslashes; j odd: a literal `"`;  j even: toggles quoting (`""` inside quotes: literal `"`)
  blank outside quotes emits the pending backslashes and ends the argument (BREAK);  inside quotes: literal
  other                emits the pending backslashes and the character
No Windows runtime exists in the sandbox: written from the documentation, an UNVALIDATED assumption.
"""
from pyvc.terms import Fold, CharClass, ite, eq, unit, empty, AND, OR, NOT, rep, cat

BS, QUOTE = ord('\\'), ord('"')
BLANK = CharClass.of(' \t', 'crt-blank')
BREAK = -1


def _step(st, c):
    mode, j = st
    is_bs = eq(c, BS)
    is_q = eq(c, QUOTE)
    blank = BLANK.contains(c)
    odd = NOT(eq(j % 2, 0)) if not isinstance(j, int) else (j % 2 != 0)
    half = j // 2 if isinstance(j, int) else j / 2
    inq = eq(mode, 2)
    # mode transitions
    m_bs = ite(OR(eq(mode, 0), eq(mode, 3)), 1, mode)
    m_q_odd = ite(OR(eq(mode, 0), eq(mode, 3)), 1, mode)
    m_q_even = ite(eq(mode, 2), 3, 2)
    m_blank = ite(inq, 2, 0)
    m_other = ite(OR(eq(mode, 0), eq(mode, 3)), 1, mode)
    mode2 = ite(is_bs, m_bs, ite(is_q, ite(odd, m_q_odd, m_q_even), ite(blank, m_blank, m_other)))
    j2 = ite(is_bs, j + 1, 0)
    out_q = ite(odd, cat(rep(BS, half), unit(QUOTE)),
                ite(eq(mode, 3), cat(rep(BS, half), unit(QUOTE)), rep(BS, half)))
    out_blank = ite(inq, cat(rep(BS, j), unit(c)), ite(eq(mode, 0), rep(BS, j), cat(rep(BS, j), unit(BREAK))))
    out = ite(is_bs, empty(), ite(is_q, out_q, ite(blank, out_blank, cat(rep(BS, j), unit(c)))))
    return (mode2, j2), out


crt = Fold('crt_argv', 2, _step, 'MS C runtime argument parsing')


def crt_args(line):
    """Concrete reading: list of arguments."""
    (mode, j), out = crt.pyrun_codes((0, 0), line)
    out = list(out) + [BS] * j
    args, cur = [], []
    for v in out:
        if v == BREAK:
            args.append(''.join(cur))
            cur = []
        else:
            cur.append(chr(v))
    if mode != 0:
        args.append(''.join(cur))
    return args
