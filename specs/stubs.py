"""Small stand-in classes interpreted by PyVC where a contract needs an object with a method (e.g. env.tool)."""


class EnvStub:
    def __init__(self, tools):
        self._tools = tools

    def tool(self, name):
        return self._tools[name]


class MatchStub:
    """A match object of a two-group pattern, for interpreting a replacement function symbolically."""
    def __init__(self, whole, g1, g2):
        self._groups = (whole, g1, g2)

    def group(self, n=0):
        return self._groups[n]

    def groups(self):
        return self._groups[1:]


class Recorder:
    """Stands for a container whose mutators are only recorded (find cache, set of searched directories)."""
    def __init__(self):
        self.calls = []

    def add(self, *args):
        self.calls.append(args)

    def update(self, *args):
        self.calls.append(args)


class ItemsStub:
    def __init__(self, items):
        self._items = items

    def items(self):
        return self._items


class StringStub:
    def __init__(self, s):
        self._s = s

    def string(self, *args):
        return self._s


class ContextStub:
    """A build context: builtins by subscription, `build` and `env` as attributes."""
    def __init__(self, fns, build, env):
        self._fns, self.build, self.env = fns, build, env

    def __getitem__(self, key):
        return self._fns[key]


class CacheMapStub:
    """find cache: subscription by filter (KeyError when absent) and recorded add()."""
    def __init__(self, entry, calls):
        self._entry, self.calls = entry, calls

    def __getitem__(self, key):
        if self._entry is None:
            raise KeyError(key)
        return self._entry

    def add(self, *args):
        self.calls.append(args)


class HostPathStub:
    """A path of the platform bfg9000 runs on: only what installify() looks at."""
    def __init__(self, suffix, root, destdir=False):
        self.suffix, self.root, self.destdir = suffix, root, destdir


class TargetPathStub:
    """A path of the platform the build is for (cross builds)."""
    def __init__(self, suffix, root, destdir=False):
        self.suffix, self.root, self.destdir = suffix, root, destdir
