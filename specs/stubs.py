"""Small stand-in classes interpreted by PyVC where a contract needs an object with a method (e.g. env.tool)."""


class EnvStub:
    def __init__(self, tools):
        self._tools = tools

    def tool(self, name):
        return self._tools[name]
