"""Library model of verspec.loose.Specifier for the verifier (interpreted by PyVC like repository code).

Assumption (stated in the evidence): versions are points of a dense total order without end points, modelled by
the reals; `v in Specifier(op, w)` is the comparison `v op w`.  (PEP 440 pre/post-release ordering quirks and
the `~=`/`===` operators are outside this model; simplify_specifiers itself rejects operators other than the six.)
"""


class SpecModel:
    def __init__(self, operator, version):
        self.operator = operator
        self.version = version

    def __contains__(self, v):
        if self.operator == '==':
            return v == self.version
        elif self.operator == '!=':
            return v != self.version
        elif self.operator == '>':
            return v > self.version
        elif self.operator == '>=':
            return v >= self.version
        elif self.operator == '<':
            return v < self.version
        elif self.operator == '<=':
            return v <= self.version
        return False

    def __eq__(self, other):
        return self.operator == other.operator and self.version == other.version

    def __ne__(self, other):
        return not (self == other)
