#!/bin/sh
# usage: tools_run_neutral_props.sh <patch.diff> <label> <property>... : like tools_run_neutral.sh, for the named checks only
patch="$1"; label="$2"; shift 2
wt=$(mktemp -d /tmp/neut.XXXXXX)
git -C /repo worktree add -q --detach "$wt" HEAD || exit 2
git -C "$wt" apply "$patch" || { echo "$label: patch does not apply"; git -C /repo worktree remove --force "$wt"; exit 2; }
cd /verif
for p in "$@"; do
  out=$(PYVC_REPO="$wt" ./check $p --no-evidence 2>&1); rc=$?
  bad=$(echo "$out" | grep -v "^KNOWN-FINDING\|WARNING conda" | grep "VIOLATION\|UNDECIDED\|CHECK-ERROR" | cut -c1-260 | head -4)
  if [ $rc -ne 0 ] || [ -n "$bad" ]; then echo "$label $p exit=$rc"; echo "$bad"; fi
done
echo "$label done ($*)"
git -C /repo worktree remove --force "$wt"
