#!/bin/sh
# usage: tools_debug_seed.sh <seed id|patchfile> <contracts module> [filter]
id="$1"; mod="$2"; flt="${3:-}"
wt=$(mktemp -d /tmp/dseed.XXXXXX)
git -C /repo worktree add -q --detach "$wt" HEAD || exit 2
pf="/verif/seeded/$id/patch.diff"; [ -f "$id" ] && pf="$id"
git -C "$wt" apply "$pf" || { echo "patch does not apply"; git -C /repo worktree remove --force "$wt"; exit 2; }
cd /verif && PYVC_REPO="$wt" ./run.sh -m pyvc.debug "$mod" $flt 2>&1 | grep -v "^proved\|   path\|WARNING conda" | cut -c1-300 | tail -${4:-12}
git -C /repo worktree remove --force "$wt"
