"""Inputs for which the UNCHANGED tree already violates (or strains) C05.
Run: PYTHONPATH=<tree> /venv/bin/python unchanged_tree_findings.py
"""
import os
import sys
import tempfile

from bfg9000.builtins import builtin, init as builtin_init
from bfg9000.build_inputs import BuildInputs
from bfg9000.environment import Environment
from bfg9000.path import abspath, InstallRoot, Path, Root
from bfg9000.backends.make import writer as make
from bfg9000.backends.ninja import writer as ninja

builtin_init()
tmp = tempfile.mkdtemp()
os.makedirs(tmp + '/builddir')


def run(title, fn, backend='make', intermediate_dirs=True):
    env = Environment(abspath(tmp + '/bfgdir'), backend, None,
                      abspath(tmp + '/srcdir'), abspath(tmp + '/builddir'))
    env.finalize({InstallRoot.prefix: abspath(tmp + '/prefix')},
                 (True, False), False)
    env.variables['NINJA'] = sys.executable
    build = BuildInputs(env, Path('build.bfg', Root.srcdir))
    ctx = builtin.BuildContext(env, build, None)
    ctx.path_stack.append(builtin.BuildContext.PathEntry(build.bfgpath))
    ctx['project'](intermediate_dirs=intermediate_dirs)
    print('--', title, '[' + backend + ']')
    try:
        fn(ctx)
        for e in build.edges():
            print('   ', type(e).__name__, [repr(o.path) for o in e.output])
        (make if backend == 'make' else ninja).write(env, build)
        print('    configured without error')
    except Exception as ex:
        print('    ERROR', type(ex).__name__, ex)


# 1. outputs outside the build directory
run("absolute source: object is put next to the source",
    lambda c: c['executable']('prog', ['/abs/x.c']))
run("component '~root' below the target's directory: object in /root",
    lambda c: c['executable']('sub/prog', ['sub/~root/x.c']))
run("copy_files with directory and a '~root' component: copy in /root",
    lambda c: c['copy_files'](['sub/~root/x.txt'], directory='sub/out'))
run("copy_file of an absolute path: output == input",
    lambda c: c['copy_file'](file='/abs/data.txt'))
# 2. conflicts that are not reported
run("copy named like another step's make depfile (foo.o.d)",
    lambda c: (c['executable']('prog', ['foo.c'], intermediate_dir=None),
               c['copy_file'](file='foo.o.d')))
run("target named like another target's intermediate directory",
    lambda c: (c['executable']('prog', ['a.c']),
               c['executable']('prog.int', ['b.c'])))
run("copy over a configure-time file (.bfg_environ)",
    lambda c: c['copy_file'](file='.bfg_environ'))
run("target named PHONY plus a command()",
    lambda c: (c['executable']('PHONY', ['a.c']),
               c['command']('hello', cmd=['echo', 'hi'])), 'ninja')
run("java: a/Main.java and b/Main.java get different .classlist files but "
    "javac is always run with '-d .', so both write ./Main.class",
    lambda c: c['executable']('prog', ['a/Main.java', 'b/Main.java']))
# 3. valid scripts that are rejected
run("two targets sharing one precompiled header",
    lambda c: (c['executable']('p1', ['a.cpp'], pch='pre.hpp'),
               c['executable']('p2', ['b.cpp'], pch='pre.hpp')))
run("shared library with version == soversion",
    lambda c: c['shared_library']('foo', ['a.c'], version='1',
                                  soversion='1'))
run("yacc source in executable(), intermediate_dirs on",
    lambda c: c['executable']('prog', ['parser.y']))
run("yacc source in executable(), intermediate_dirs off",
    lambda c: c['executable']('prog', ['parser.y']), intermediate_dirs=False)
