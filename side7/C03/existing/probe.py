"""Inputs for which the UNCHANGED tree already deviates from C03 (not seeded).

Run as:  PYTHONPATH=<tree> /venv/bin/python probe.py
Prints the relevant generated rules; always exits 0.
"""
import os
import shutil
import sys
import tempfile
import traceback

from bfg9000 import build, path
from bfg9000.environment import Environment
from bfg9000.backends.make import writer as make_writer
from bfg9000.backends.ninja import writer as ninja_writer


def configure(files, backend):
    os.environ.setdefault('NINJA', '/bin/true')
    top = tempfile.mkdtemp(prefix='c03-probe-')
    src, bld = os.path.join(top, 'src'), os.path.join(top, 'build')
    os.makedirs(bld)
    for name, text in files.items():
        os.makedirs(os.path.dirname(os.path.join(src, name)), exist_ok=True)
        with open(os.path.join(src, name), 'w') as f:
            f.write(text)
    bindir = os.path.dirname(os.path.abspath(sys.executable))
    env = Environment(bfgdir=path.abspath(bindir), backend=backend,
                      backend_version=None, srcdir=path.abspath(src),
                      builddir=path.abspath(bld))
    env.finalize(install_dirs={i: None for i in path.InstallRoot},
                 library_mode=(True, False), compdb=False, extra_args=[])
    cwd = os.getcwd()
    os.chdir(bld)
    try:
        writer = make_writer if backend == 'make' else ninja_writer
        writer.write(env, build.configure_build(env))
        with open(os.path.join(bld, writer.filepath.suffix)) as f:
            return f.read()
    finally:
        os.chdir(cwd)
        shutil.rmtree(top, ignore_errors=True)


def show(title, text, prefixes):
    print('== ' + title)
    for line in text.splitlines():
        if line.startswith(prefixes):
            print('   ' + line)


# E1: a file inside a concatenated word of a custom command is not a dep.
E1 = {
    'build.bfg': """
project('p', intermediate_dirs=False)
hdr = build_step('g.h', cmd=['cp', build_step.input, build_step.output],
                 files=['g.h.in'])
rep = build_step('rep.txt', cmd=['tool', '--in=' + hdr, '-o', build_step.output])
""",
    'g.h.in': '',
}
show('E1 make : rep.txt names g.h in its command but has no prerequisite',
     configure(E1, 'make'), ('rep.txt:', '\ttool'))
show('E1 ninja: same', configure(E1, 'ninja'), ('build rep.txt', '  cmd = tool'))

# E2: string extra_deps in a submodule resolve against the top source dir.
E2 = {
    'build.bfg': "project('p', intermediate_dirs=False)\nsubmodule('sub')\n",
    'sub/build.bfg': "static_library('s', files=['s.c'], "
                     "extra_deps=['dep.txt'])\n",
    'sub/s.c': '', 'sub/dep.txt': '',
}
show('E2 make : source is $(srcdir)/sub/s.c but extra dep is $(srcdir)/dep.txt'
     ' (which does not exist)', configure(E2, 'make'),
     ('sub/s.o:', 'sub/libs.a:'))

# E3: pch given as a string to a link step with two sources is rejected.
E3 = {
    'build.bfg': "project('p', intermediate_dirs=False)\n"
                 "executable('main', files=['a.c', 'b.c'], pch='pch.h')\n",
    'a.c': '', 'b.c': '', 'pch.h': '',
}
print('== E3 make : one precompiled_header() step per source -> duplicate rule')
try:
    configure(E3, 'make')
    print('   (configured without error)')
except Exception:
    print('   ' + traceback.format_exc().strip().splitlines()[-1])
