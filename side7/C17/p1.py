from h import *
script = '''
project('hello', '1.0')
inc = header_directory('include', include='*.h')
inner = static_library('inner', files=['inner.c'])
lib = static_library('hello', files=['hello.c'], includes=[inc], libs=[inner])
pkg = pkg_config('hello', version='1.0', includes=[inc], libs=[lib])
executable('prog', 'prog.c', packages=[pkg])
'''
files = {'include/hello.h': 'int hello(void);\n', 'inner.c': 'int inner(void){return 1;}\n',
 'hello.c': '#include "hello.h"\nint inner(void);\nint hello(void){return inner();}\n',
 'prog.c': '#include <hello.h>\nint main(){return hello()-1;}\n'}
top, src, bld, r = configure(script, files)
print(r.stdout)
show(bld)
r = subprocess.run(["env", "PATH=/venv/bin:" + os.environ["PATH"], "make", "-C", bld, "prog"], stdout=subprocess.PIPE, stderr=subprocess.STDOUT, universal_newlines=True)
print(r.stdout[-1500:])
