from h import *
import h
dep = tempfile.mkdtemp(prefix='c17dep_')
open(os.path.join(dep, 'dep.pc'), 'w').write('''prefix=/opt/dep
Name: dep
Description: dep
Version: 1.5
Cflags: -I${prefix}/include -DDEP
Libs: -L${prefix}/lib -ldep
''')
script = '''
project('hello', '1.0')
dep = package('dep', version='>=1.2')
inc = header_directory('include', include='*.h')
lib = static_library('hello', files=['hello.c'], includes=[inc], packages=[dep])
pkg = pkg_config('hello', version='1.0', includes=[inc], libs=[lib], requires_private=[('dep', '<2.0')])
'''
files = {'include/hello.h': 'int hello(void);\n', 
 'hello.c': '#include "hello.h"\nint hello(void){return 1;}\n'}
top, src, bld, r = configure(script, files, env={'PKG_CONFIG_PATH': dep}, args=[])
print(r.stdout)
show(bld)
