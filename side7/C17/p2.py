from h import *
import shlex
script = r'''
project('hello', '1.0')
inc = header_directory('in c', include='*.h')
lib = static_library('hello', files=['hello.c'], includes=[inc])
pkg_config('hello', version='1.0', includes=[inc], libs=[lib], options=OPTS, link_options=['-Wl,--defsym,a$b=1'])
'''
files = {'in c/hello.h': 'int hello(void);\n',
 'hello.c': '#include "hello.h"\nint hello(void){return 1;}\n'}
import sys
for o in [['-DA=a b'], ['-DA="q"'], ["-DA='q'"], ['-DA=$x'], ['-DA=${x}'], ['-DA=a#b'], ['-DA=a\\b'], ['-DA=a\\\\b'], ['-DA=100%'], ['-DA=a\tb'], ["-DA=it's"], ["'lead"], ["trail'"], ['-DA=a$$b'], ['-DA=a;b|c&d'], ['-DA=a*b?[c]'], ['-DA=~x'], ['-DA=`x`'], ['-DA=(x)'], ['-DA=<x>'], ['-DA=!x'], ['-DA={x}'], ['']]:
    top, src, bld, r = configure(script.replace('OPTS', repr(o)), files)
    if r.returncode: print(o, 'CONFIGURE FAIL', r.stdout[-300:]); continue
    for u in (True, False):
        rc, out, err = pc(bld, ['hello', '--cflags-only-other'], uninstalled=u)
        try:
            got = shlex.split(out)
        except Exception as e:
            got = 'ERR %s %r' % (e, out)
        print('OK ' if got == o else 'BAD', o, u, rc, repr(out), got, err)
    shutil.rmtree(top)
