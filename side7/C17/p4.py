from h import *
depdir = tempfile.mkdtemp(prefix='c17dep_')
def mkdep(ver):
    open(os.path.join(depdir, 'dep.pc'), 'w').write('Name: dep\nDescription: dep\nVersion: %s\nCflags: -DDEP\nLibs: -ldep\n' % ver)
script = '''
project('hello', '1.0')
pkg_config('hello', version='1.0', KW)
'''
import sys
for kw in ["conflicts=[('dep', '>=1.0,<2.0')]", "requires=[('dep', '!=1.5')]", "requires=[('dep', '>=1.0,!=1.5')]", "requires=[('dep', '>=1.0')], requires_private=[('dep', '<2.0')]",  "requires=[('dep', '>=1.0')], conflicts=[('dep', '>=1.0')]", "requires=[('dep', '==1.0')]", "requires=[('dep', '>=1.0')], requires_private=[('dep', '>=1.5')]"]:
    top, src, bld, r = (mkdep('1.0'), configure(script.replace('KW', kw), {}, env={'PKG_CONFIG_PATH': depdir}))[1]
    print('=====', kw)
    if r.returncode: print('CONFIGURE FAIL', r.stdout[-200:]); continue
    print([l for l in open(bld + '/pkgconfig/hello.pc').read().split('\n') if l.startswith(('Req', 'Conf'))])
    for v in ['0.5', '1.0', '1.5', '2.0', '3.0']:
        mkdep(v)
        rc, out, err = pc(bld, ['hello', 'dep', '--cflags'], extra_path=[depdir])
        print(v, rc, out, err[:80].replace('\n', ' '))
