from h import *
script = '''
project('hello', '1.0')
hdr = header_file('hello.h')
priv = static_library('priv', files=['inner.c'])
lib = static_library('hello', files=['hello.c'])
install(lib, hdr)
pkg_config(auto_fill=True, libs_private=[priv])
'''
files = {'hello.h': 'int hello(void);\n', 'inner.c': 'int inner(void){return 1;}\n',
 'hello.c': '#include "hello.h"\nint hello(void){return 1;}\n'}
top, src, bld, r = configure(script, files)
print(r.stdout)
show(bld)
