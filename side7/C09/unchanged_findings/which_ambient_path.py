# UNCHANGED tree: the toolchain builtins which()/compiler()/linker()/runner()
# search the AMBIENT os.environ['PATH'] (shell.which default env=os.environ),
# not the saved variables, so replaying the toolchain on regeneration can pick
# a different tool than at configure time.
import os, stat, tempfile
from bfg9000 import build
from bfg9000.build_inputs import Regenerating
from bfg9000.environment import Environment
from bfg9000.path import Path, Root

top = tempfile.mkdtemp()
bina, binb, bld = (os.path.join(top, i) for i in ('bina', 'binb', 'build'))
for d, tool in ((bina, 'tool-a'), (binb, 'tool-b')):
    os.makedirs(d)
    f = os.path.join(d, tool)
    open(f, 'w').write('#!/bin/sh\n')
    os.chmod(f, 0o755)
os.makedirs(bld)
tc = os.path.join(top, 'toolchain.bfg')
open(tc, 'w').write("compiler(['tool-a', 'tool-b'], 'c')\n")

os.environ['PATH'] = bina + os.pathsep + binb          # configure time
env = Environment(Path('/bfgdir/', Root.absolute), 'make', '4.3',
                  Path(top + '/', Root.absolute), Path(bld + '/', Root.absolute))
build.load_toolchain(env, Path(tc, Root.absolute))
env.finalize({}, (True, False), True, [])
env.save(bld)
print('configure :', env.variables['CC'])

os.environ['PATH'] = binb                               # later invocation
env2 = Environment.load(bld)
build.load_toolchain(env2, env2.toolchain.path, Regenerating.true)
print('regenerate:', env2.variables['CC'], '(saved PATH =',
      env2.variables['PATH'] + ')')
assert env2.variables['CC'] == env.variables['CC']
