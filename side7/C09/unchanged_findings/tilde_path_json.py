# UNCHANGED tree: a relative path whose suffix starts with '~' does not
# survive to_json/from_json (from_json re-runs expanduser with the ambient
# HOME).  Not reachable through the Environment fields (all absolute), but
# through any other persisted Path (e.g. RegenerateFiles / find cache).
from bfg9000.path import Path, Root
p = Path('./~', Root.builddir)
q = Path.from_json(p.to_json())
print(p.to_json(), '->', q.to_json())
assert p == q
