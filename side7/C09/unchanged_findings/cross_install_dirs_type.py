# UNCHANGED tree: for a cross build whose target family differs from the
# host's, the install directories filled in from the target platform are
# target-flavoured paths (WindowsPath on a posix host); Environment.load
# rebuilds them with the HOST Path class, so the reloaded configuration is not
# equal to the saved one and renders differently.
import tempfile
from bfg9000 import platforms
from bfg9000.environment import Environment
from bfg9000.path import InstallRoot, Path, Root

d = tempfile.mkdtemp()
env = Environment(Path('/bfgdir/', Root.absolute), 'make', '4.3',
                  Path('/src/', Root.absolute), Path(d + '/', Root.absolute))
env.target_platform = platforms.target.platform_info('winnt', 'x86_64')
env.finalize({InstallRoot.prefix: Path('/opt/x/', Root.absolute)},
             (True, False), True, [])
env.save(d)
env2 = Environment.load(d)
for k in env.install_dirs:
    a, b = env.install_dirs[k], env2.install_dirs[k]
    print(k.name, repr(a), type(a).__name__, '->', repr(b), type(b).__name__,
          a == b)
assert all(env.install_dirs[k] == env2.install_dirs[k]
           for k in env.install_dirs)
