"""Harness: generate build.ninja from a build.bfg via bfg9000, evaluate it by
the rules of the Ninja manifest language, run the resulting command lines with
/bin/sh and record what every started process received."""
import atexit
import logging
import os
import re
import shutil
import subprocess
import sys
import tempfile

from bfg9000 import build as bfgbuild
from bfg9000.backends.ninja import writer as ninja_writer
from bfg9000.environment import Environment
from bfg9000.path import abspath, InstallRoot

logging.disable(logging.CRITICAL)

RECORDER = r'''#!/bin/sh
# records argv (NUL separated) and the requested environment variables
{
  for a in "$@"; do printf '%s\0' "$a"; done
  printf '\1'
  for k in $REC_KEYS; do eval "v=\${$k-<unset>}"; printf '%s=%s\0' "$k" "$v"; done
  printf '\2'
} >> "$REC_LOG"
'''


# ---------------------------------------------------------------- mini ninja
class NinjaManifest:
    def __init__(self, text):
        self.vars = {}
        self.rules = {'phony': {}}
        self.builds = []
        self._parse(text)

    @staticmethod
    def _expand(s, lookup, path=False):
        """Expand $-escapes/variables in s. If path, stop at unescaped
        space/colon/pipe/newline and return (value, rest)."""
        out = []
        i = 0
        n = len(s)
        while i < n:
            c = s[i]
            if c == '$':
                d = s[i + 1] if i + 1 < n else ''
                if d in ('$', ' ', ':'):
                    out.append(d)
                    i += 2
                elif d == '{':
                    j = s.index('}', i)
                    out.append(lookup(s[i + 2:j]))
                    i = j + 1
                elif d == '\n':
                    i += 2
                    while i < n and s[i] == ' ':
                        i += 1
                else:
                    m = re.match(r'[A-Za-z0-9_-]+', s[i + 1:])
                    if not m:
                        raise ValueError('bad $-escape in {!r}'.format(s))
                    out.append(lookup(m.group(0)))
                    i += 1 + m.end()
            elif path and c in ' :|\n':
                break
            else:
                out.append(c)
                i += 1
        if path:
            return ''.join(out), s[i:]
        return ''.join(out)

    def _file_lookup(self, name):
        return self.vars.get(name, '')

    def _parse_paths(self, s, lookup):
        # explicit inputs, implicit (after |), order-only (after ||)
        groups = [[], [], []]
        cur = 0
        s = s.lstrip(' ')
        while s:
            if s.startswith('||'):
                cur = 2
                s = s[2:].lstrip(' ')
                continue
            if s.startswith('|'):
                cur = 1
                s = s[1:].lstrip(' ')
                continue
            p, s = self._expand(s, lookup, path=True)
            groups[cur].append(p)
            s = s.lstrip(' ')
        return groups

    def _parse(self, text):
        lines = text.split('\n')
        i = 0
        while i < len(lines):
            line = lines[i]
            i += 1
            if not line.strip() or line.lstrip().startswith('#'):
                continue
            if line.startswith('rule '):
                name = line[5:].strip()
                rule = {}
                while i < len(lines) and lines[i].startswith('  '):
                    k, v = lines[i].strip().split(' = ', 1) \
                        if ' = ' in lines[i] else (lines[i].strip()[:-2], '')
                    rule[k] = v
                    i += 1
                self.rules[name] = rule
            elif line.startswith('build '):
                rest = line[6:]
                outs = []
                rest = rest.lstrip(' ')
                while not rest.startswith(':'):
                    p, rest = self._expand(rest, self._file_lookup, path=True)
                    outs.append(p)
                    rest = rest.lstrip(' ')
                rest = rest[1:].lstrip(' ')
                m = re.match(r'[\w.-]+', rest)
                rule = m.group(0)
                rest = rest[m.end():]
                bindings = {}
                while i < len(lines) and lines[i].startswith('  '):
                    raw = lines[i].strip()
                    if ' = ' in raw:
                        k, v = raw.split(' = ', 1)
                    else:
                        k, v = raw[:-2], ''
                    # evaluated immediately against the *file* scope
                    bindings[k] = self._expand(v, self._file_lookup)
                    i += 1

                def edge_lookup(name, bindings=bindings):
                    if name in bindings:
                        return bindings[name]
                    return self._file_lookup(name)
                groups = self._parse_paths(rest, edge_lookup)
                self.builds.append({
                    'outputs': outs, 'rule': rule, 'inputs': groups[0],
                    'implicit': groups[1], 'order_only': groups[2],
                    'bindings': bindings,
                })
            elif line.startswith('default '):
                continue
            else:
                if ' = ' in line:
                    k, v = line.split(' = ', 1)
                else:
                    k, v = line.rstrip()[:-2], ''
                self.vars[k.strip()] = self._expand(v.lstrip(' '),
                                                    self._file_lookup)

    @staticmethod
    def _shell_escape(s):
        if re.fullmatch(r'[A-Za-z0-9_+\-./]+', s):
            return s
        return "'" + s.replace("'", "'\\''") + "'"

    def command(self, output):
        for b in self.builds:
            if output in b['outputs']:
                break
        else:
            raise KeyError(output)
        rule = self.rules[b['rule']]
        stack = []

        def lookup(name):
            if name == 'in':
                return ' '.join(self._shell_escape(i) for i in b['inputs'])
            if name == 'out':
                return ' '.join(self._shell_escape(i) for i in b['outputs'])
            if name in b['bindings']:
                return b['bindings'][name]
            if name in rule:
                if name in stack:
                    raise ValueError('cycle')
                stack.append(name)
                try:
                    return self._expand(rule[name], lookup)
                finally:
                    stack.pop()
            return self._file_lookup(name)
        return lookup('command')


# ---------------------------------------------------------------- driver
class Project:
    def __init__(self, bfg_text, files={}, env_keys=(), backend_version=None,
                 srcname='src', variables={}, fake_tools=()):
        self.tmp = tempfile.mkdtemp(prefix='c02demo')
        atexit.register(shutil.rmtree, self.tmp, True)
        self.srcdir = os.path.join(self.tmp, srcname)
        self.builddir = os.path.join(self.tmp, 'build')
        os.makedirs(self.srcdir)
        os.makedirs(self.builddir)
        self.rec = os.path.join(self.tmp, 'rec')
        with open(self.rec, 'w') as f:
            f.write(RECORDER)
        os.chmod(self.rec, 0o755)
        self.log = os.path.join(self.tmp, 'log')
        # directory put first on PATH when the command lines are run, so that
        # e.g. `cc` resolves to the recorder instead of the real compiler
        self.fakebin = os.path.join(self.tmp, 'fakebin')
        os.makedirs(self.fakebin)
        for t in fake_tools:
            os.symlink(self.rec, os.path.join(self.fakebin, t))
        self.env_keys = list(env_keys)

        with open(os.path.join(self.srcdir, 'build.bfg'), 'w') as f:
            f.write('REC = {!r}\n'.format(self.rec) + bfg_text)
        for k, v in files.items():
            with open(os.path.join(self.srcdir, k), 'w') as f:
                f.write(v)

        env = Environment(abspath(os.path.dirname(__file__) or '.'), 'ninja',
                          backend_version, abspath(self.srcdir),
                          abspath(self.builddir))
        env.finalize({InstallRoot.prefix: abspath(
            os.path.join(self.tmp, 'prefix')
        )}, (True, False), False, [])
        env.variables['NINJA'] = self.rec
        for k, v in variables.items():
            env.variables[k] = (v.replace('@REC@', self.rec)
                                .replace('@TMP@', self.tmp))
        self.env = env
        cwd = os.getcwd()
        try:
            self.build = bfgbuild.configure_build(env)
            os.chdir(self.builddir)
            ninja_writer.write(env, self.build)
        finally:
            os.chdir(cwd)
        with open(os.path.join(self.builddir, 'build.ninja')) as f:
            self.text = f.read()
        self.manifest = NinjaManifest(self.text)

    def run(self, target):
        """Run the command of `target` via /bin/sh; return the list of
        (argv, env) of every recorded process."""
        cmd = self.manifest.command(target)
        if os.path.exists(self.log):
            os.remove(self.log)
        e = {'PATH': self.fakebin + ':' + os.environ.get('PATH', '/usr/bin:/bin'),
             'REC_LOG': self.log, 'REC_KEYS': ' '.join(self.env_keys)}
        p = subprocess.run(['/bin/sh', '-c', cmd], cwd=self.builddir, env=e,
                           stdout=subprocess.PIPE, stderr=subprocess.STDOUT)
        procs = []
        if os.path.exists(self.log):
            data = open(self.log, 'rb').read().decode('utf-8')
            for chunk in data.split('\2'):
                if not chunk:
                    continue
                a, ev = chunk.split('\1')
                argv = a.split('\0')[:-1]
                envd = dict(i.split('=', 1) for i in ev.split('\0')[:-1])
                procs.append((argv, envd))
        return cmd, p.returncode, p.stdout.decode(), procs


# ---------------------------------------------------------------- probe
# UNCHANGED-tree observation (not a seeded change): a test that is a child of
# a test_driver is handed to the driver as ONE argument (its collapsed command
# line) when its command is a list, but as SEVERAL arguments when the same
# command is given as a (multi-word) string command line.
BFG = r'''
project('demo')
d = test_driver([REC, 'drv'])
test([REC, 'c 1', 'x'], driver=d)        # list form
test(REC + ' "c 2" x', driver=d)         # string form (shell syntax)
'''

if __name__ == '__main__':
    p = Project(BFG)
    cmd, rc, out, procs = p.run('test')
    print('command line:', cmd)
    print('driver argv :', procs[0][0])
    argv = procs[0][0]
    assert argv[0] == 'drv'
    # expected: one argument per child test
    assert len(argv) == 3, \
        'driver received {} arguments for 2 child tests: {!r}'.format(
            len(argv) - 1, argv[1:])
    print('OK')
