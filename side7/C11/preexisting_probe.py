"""Behaviour of the UNCHANGED tree that already seems to contradict C11.
Run: cd /tmp && PYTHONPATH=/tmp/seed7_C11 /venv/bin/python /tmp/seed7_C11/out/preexisting_probe.py
"""
import os
import tempfile

from bfg9000.build_inputs import BuildInputs
from bfg9000.builtins import builtin, find, project, regenerate  # noqa: F401
from bfg9000.builtins import file_types, version  # noqa: F401
import bfg9000.builtins.path  # noqa: F401
from bfg9000.environment import Environment
from bfg9000.glob import PathGlob
from bfg9000.path import abspath, InstallRoot, Path, Root


def tree(files, links=()):
    top = tempfile.mkdtemp(prefix='c11-pre-')
    src, bld = os.path.join(top, 'proj'), os.path.join(top, 'bld')
    os.makedirs(src)
    os.makedirs(bld)
    for i in files:
        os.makedirs(os.path.dirname(os.path.join(src, i)), exist_ok=True)
        with open(os.path.join(src, i), 'w'):
            pass
    for name, target in links:
        os.symlink(target, os.path.join(src, name))
    env = Environment(abspath(src), None, None, abspath(src), abspath(bld))
    env.finalize({InstallRoot.prefix: abspath('/usr/local')}, (False, False),
                 False)
    build = BuildInputs(env, Path('build.bfg', Root.srcdir))
    context = builtin.BuildContext(env, build, None)
    context.path_stack.append(builtin.BuildContext.PathEntry(build.bfgpath))
    return src, context


def show(title, context, *args, **kwargs):
    try:
        r = sorted(repr(i) for i in context['find_paths'](*args, **kwargs))
    except Exception as e:
        r = '{}: {}'.format(type(e).__name__, e)
    print('{}\n    find_paths{}{} -> {}'.format(title, args, kwargs or '', r))


src, c = tree(['a.c', '.#a.c', '.a.c#', '#a.c#', 'a.c~'])
show('A. default excludes: documented `.#*`, implemented `.*#`', c, '*')

src, c = tree(['build/y.c', 'x.c'])
show('B. exclude matching the literal base directory is not honoured',
     c, 'build/**', exclude='build/')
show('   (same exclude, base one level up)', c, '**', exclude='build/')

src, c = tree(['sub/a\\b.c', 'sub/ok.c'])
show('C1. backslash in a file name is turned into a separator '
     '(returned entry does not exist)', c, 'sub/*')
src, c = tree(['~', 'ok.c'])
show('C2. top-level entry named `~` is expanded to the home directory',
     c, '*')
src, c = tree(['sub/a:b.c', 'sub/ok.c'])
show('C3. `x:...` in a file name is taken for a drive', c, 'sub/*')

print('D. absolute pattern directly below the file system root')
try:
    print('   ', PathGlob('/*').base)
except Exception as e:
    print('    PathGlob("/*") -> {}: {}'.format(type(e).__name__, e))

src, c = tree(['build/y.c', 'x.c'])
show("E. type='f' together with a directory exclude", c, '**', type='f',
     exclude='build/')

src, c = tree(['x.c'], links=[('dangling.c', 'nowhere')])
show('F. dangling symlink is returned although it does not exist', c, '*.c')

src, c = tree(['d1/x.c', 'f.c'])
show("G. trailing slash combined with type='*' also returns files",
     c, '*/', type='*')
