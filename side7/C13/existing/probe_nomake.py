import difflib
import os
import shutil
import subprocess
import sys
import tempfile

work = tempfile.mkdtemp(prefix='c13probe_')
src = os.path.join(work, 'src')
os.makedirs(src)
with open(os.path.join(src, 'build.bfg'), 'w') as f:
    f.write("project('p', version='1.0')\n"
            "a = copy_file('in.txt', 'out/a.txt')\n")
with open(os.path.join(src, 'in.txt'), 'w') as f:
    f.write('hi\n')

env = dict(os.environ, MAKE='/nonexistent/make')


def bfg(args, cwd):
    code = ('import sys; from bfg9000.driver import main; '
            'sys.argv = ["bfg9000"] + {!r}; sys.exit(main())'.format(args))
    return subprocess.run([sys.executable, '-c', code], cwd=cwd, env=env,
                          stdout=subprocess.PIPE, stderr=subprocess.STDOUT,
                          universal_newlines=True)


bdir = os.path.join(work, 'build')
r = bfg(['configure', bdir, '--backend=make', '--no-resolve-packages'], src)
print('configure', r.returncode, r.stdout[-300:])
first = open(os.path.join(bdir, 'Makefile')).read()
r = bfg(['regenerate', bdir], src)
print('regenerate', r.returncode, r.stdout[-300:])
second = open(os.path.join(bdir, 'Makefile')).read()
print('same' if first == second else 'DIFFERENT')
print(''.join(difflib.unified_diff(first.splitlines(True),
                                   second.splitlines(True))))
shutil.rmtree(work)
