import json
import logging
import os
import shutil
import sys
import tempfile

logging.disable(logging.CRITICAL)

from bfg9000 import build as bfgbuild
from bfg9000.environment import Environment
from bfg9000.path import abspath, InstallRoot
from bfg9000.backends.make import writer as make_writer
from bfg9000.backends.ninja import writer as ninja_writer
from bfg9000.backends.compdb import writer as compdb_writer
from bfg9000.versioning import Version


def generate(script, files, variables={}, library_mode=(True, False)):
    """Configure one build script with the Make and the Ninja backend (same
    source tree, same environment variables, same options) and return the text
    of the Makefile and of build.ninja plus the parsed compile_commands.json.
    Only public bfg9000 entry points are used (Environment, configure_build,
    <backend>.write)."""
    top = tempfile.mkdtemp(prefix='c06demo')
    try:
        src = os.path.join(top, 'src')
        bld = os.path.join(top, 'build')
        os.makedirs(src)
        os.makedirs(bld)
        files = dict(files)
        files['build.bfg'] = script
        for name, text in files.items():
            p = os.path.join(src, name)
            os.makedirs(os.path.dirname(p), exist_ok=True)
            with open(p, 'w') as f:
                f.write(text)

        result = {'srcdir': src, 'builddir': bld}
        cwd = os.getcwd()
        os.chdir(bld)
        try:
            for name, backend, version in (
                ('make', make_writer, Version('4.3')),
                ('ninja', ninja_writer, Version('1.10')),
            ):
                env = Environment(abspath(os.path.dirname(sys.executable)),
                                  name, version, abspath(src), abspath(bld))
                # No ninja binary is needed to *write* build.ninja, but the
                # `clean` target wants to know its name.
                env.variables['NINJA'] = '/bin/true'
                env.variables['MOPACK_NESTED_INVOCATION'] = '1'
                env.variables.update(variables)
                env.finalize({InstallRoot.prefix: abspath('/usr/local')},
                             library_mode, True, extra_args=[])
                build = bfgbuild.configure_build(env)
                backend.write(env, build)
                with open(backend.filepath.string(env.base_dirs)) as f:
                    result[name] = f.read()
                if name == 'ninja':
                    compdb_writer.write(env, build)
                    with open('compile_commands.json') as f:
                        result['compdb'] = json.load(f)
        finally:
            os.chdir(cwd)
        return result
    finally:
        shutil.rmtree(top, ignore_errors=True)


def make_block(makefile, target):
    """All lines of the Makefile that belong to `target`: its target-specific
    variable lines and its rule (header line + recipe lines)."""
    out, in_rule = [], False
    for line in makefile.splitlines():
        if line.startswith(target + ':'):
            out.append(line)
            in_rule = ' := ' not in line
        elif in_rule and line.startswith('\t'):
            out.append(line)
        else:
            in_rule = False
    return out


def ninja_block(ninjafile, target):
    """The `build <target>...:` statement of build.ninja and its indented
    variable lines."""
    out, in_build = [], False
    for line in ninjafile.splitlines():
        if line.startswith('build '):
            outputs = line[len('build '):].split(': ', 1)[0].split(' ')
            in_build = target in outputs
            if in_build:
                out.append(line)
        elif in_build and line.startswith('  '):
            out.append(line)
        else:
            in_build = False
    return out


def global_var(text, name):
    for line in text.splitlines():
        for sep in (' := ', ' = '):
            if line.startswith(name + sep):
                return line[len(name + sep):]
    return None



# ---- finding A: program of a build_step that is a built executable ---------
r = generate("""
project('p', '1.0')
gen = executable('gen', ['gen.c'])
build_step('out.txt', cmd=[gen, 'arg'], files=['in.txt'])
""", {'gen.c': 'int main(void){return 0;}\n', 'in.txt': ''})
print('A. Makefile   :', make_block(r['make'], 'out.txt'))
print('A. build.ninja:', ninja_block(r['ninja'], 'out.txt'))
print('A. compdb     :', [e for e in r['compdb'] if e['output'] == 'out.txt'][0])

# ---- finding B: '#' in a flag value ----------------------------------------
r = generate("""
project('p', '1.0')
executable('prog', ['a.c'], compile_options=['-DHASH="#x"', '-DAFTER=1'])
""", {'a.c': 'int main(void){return 0;}\n'})
print('B. Makefile   :', make_block(r['make'], 'prog.int/a.o'))
print('B. build.ninja:', ninja_block(r['ninja'], 'prog.int/a.o'))
print('B. compdb     :', r['compdb'][0]['arguments'])
import subprocess, tempfile
with tempfile.TemporaryDirectory() as d:
    mk = os.path.join(d, 'Makefile')
    lines = [l for l in make_block(r['make'], 'prog.int/a.o') if ' := ' in l]
    with open(mk, 'w') as f:
        f.write('GLOBAL_CFLAGS :=\n' + lines[0] + '\nprog.int/a.o:\n\t@echo CFLAGS=[$(CFLAGS)]\n')
    print('B. what make sees:', subprocess.run(['make', '-s', '-f', mk, 'prog.int/a.o'], capture_output=True, text=True))
