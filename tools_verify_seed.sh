#!/bin/sh
# usage: tools_verify_seed.sh <seed-out-dir> <id>   -- confirm a seeded change in a scratch worktree and keep it
# under /verif/seeded/<id>/ (patch.diff, demo.py, meta.json + what was run).
set -u
src="$1"; id="$2"
wt=$(mktemp -d /tmp/vseed.XXXXXX)
git -C /repo worktree add -q --detach "$wt" HEAD || exit 2
res=ok
( cd "$wt" && PYTHONPATH="$wt" timeout 600 /venv/bin/python "$src/demo.py" >/dev/null 2>&1 ); d0=$?
if ! git -C "$wt" apply "$src/patch.diff" 2>/tmp/vseed.err; then res="patch-does-not-apply"; fi
( cd "$wt" && PYTHONPATH="$wt" timeout 600 /venv/bin/python "$src/demo.py" >/dev/null 2>&1 ); d1=$?
tests=$(cd "$wt" && PYTHONPATH="$wt" /venv/bin/python -m pytest -q -p no:cacheprovider --timeout=900 --continue-on-collection-errors 2>&1 | tail -1)
echo "$id: demo unchanged=$d0 patched=$d1 tests: $tests  [$res]"
if [ "$res" = ok ] && [ "$d0" = 0 ] && [ "$d1" != 0 ] && echo "$tests" | grep -q "1223 passed"; then
  mkdir -p /verif/seeded/$id
  cp "$src/patch.diff" "$src/demo.py" /verif/seeded/$id/
  /venv/bin/python - "$src/meta.json" "$id" "$d0" "$d1" "$tests" <<'PY'
import json,sys
m=json.load(open(sys.argv[1]))
m['confirmed']={'demo_exit_unchanged':int(sys.argv[3]),'demo_exit_patched':int(sys.argv[4]),'pytest_tail_patched':sys.argv[5],
  'how':'scratch git worktree of /repo HEAD; demo.py run before and after `git apply patch.diff`; full pytest baseline command on the patched tree'}
json.dump(m,open('/verif/seeded/%s/meta.json'%sys.argv[2],'w'),indent=1)
PY
  echo "  kept /verif/seeded/$id"
fi
git -C /repo worktree remove --force "$wt"
